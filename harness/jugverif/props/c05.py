"""C05 - a result is visible completely or not at all, under crashes and concurrent reads"""
import json
import os
import shutil

import numpy as np

from jugverif import core, dumpcheck as D
from jugverif.storecheck import vcanon

LEVEL = 'proof'
THEOREMS = ['Jug.C05.failed_write_visible_implies_complete', 'Jug.C05.gave_up_publishes_nothing', 'Jug.C05.failing_writes_safe', 'Jug.C05.old_or_new', 'Jug.C05.visible_implies_complete', 'Jug.C05.residue_is_temp_only', 'Jug.C05.invisible_before_rename', 'Jug.C05.dump_sequences_safe', 'Jug.C05.packed_overwrite_order', 'Jug.C05.after_rename', 'Jug.C05.redis_dump_is_one_set']


def extract():
    sc = core.scratch_dir()
    try:
        D.extract(sc)
    finally:
        core.rm_rf(sc)


def make_probe(run, allowed, keys, compress, rp, stats):
    """called before every file-system primitive of the write (= every point at which the writer can die, and every instant a reader can look)"""
    def probe(rec, prim, path):
        stats['points'] += 1
        # (a) concurrent reader / fresh process after a kill: the live directory as it is now (Python-level buffers are not in it)
        view, listing = D.reader_view(rec.jugdir, keys, compress)
        for k, v in view.items():
            if v not in allowed.get(k, ()):
                run.fail('partial-visible', 'at the point before %s (%s) of the write, key %s is loadable but loads as %s; values ever written: %s'
                         % (prim, os.path.basename(str(path)), k, str(v)[:120], [a[:60] for a in allowed.get(k, ())]), dict(rp, point=len(rec.events)))
        for k in listing:
            if k not in keys:
                run.fail('temp-listed-as-key', 'at the point before %s the store lists %r as a result key (a temporary file is interpreted as a result)' % (prim, k), dict(rp, point=len(rec.events)))
        for k in stats.get('must_have', ()):
            if k not in view:
                run.fail('previous-result-lost', 'at the point before %s of an overwrite, key %s has neither its old nor its new value' % (prim, k), dict(rp, point=len(rec.events)))
        # (b) power loss: every file reachable under a final name must be completely on disk
        finals = []
        for root, dirs, files in os.walk(rec.jugdir):
            base = os.path.basename(root)
            if base in ('tempfiles', 'locks'):
                continue
            for f in files:
                finals.append(os.path.join(root, f))
        for f in finals:
            size = os.path.getsize(f)
            dur = rec.durable.get(f)
            if dur is None:
                # created before recording started (prior state): durable by assumption
                if f in stats['prior']:
                    continue
                dur = 0
            if dur < size:
                stats['powerloss_images'] += 1
                for cut in sorted({dur, (dur + size) // 2}):
                    img = rec.jugdir + '-img'
                    core.rm_rf(img)
                    shutil.copytree(rec.jugdir, img)
                    with open(os.path.join(img, os.path.relpath(f, rec.jugdir)), 'r+b') as fh:
                        fh.truncate(cut)
                    v2, l2 = D.reader_view(img, keys, compress)
                    core.rm_rf(img)
                    for k in stats.get('must_have', ()):
                        if k not in v2:
                            run.fail('power-loss-damage', 'at the point before %s: %s is reachable under a final name with only %d of %d bytes on disk; after a power loss the previously stored '
                                     'result of key %s cannot be loaded any more' % (prim, os.path.relpath(f, rec.jugdir), dur, size, k), dict(rp, point=len(rec.events), cut=cut))
                    for k, v in v2.items():
                        if v not in allowed.get(k, ()):
                            run.fail('power-loss-partial', 'at the point before %s: %s is reachable under a final name with only %d of %d bytes on disk; after a power loss key %s loads as %s'
                                     % (prim, os.path.relpath(f, rec.jugdir), dur, size, k, str(v)[:100]), dict(rp, point=len(rec.events), cut=cut))
    return probe


def check(run):
    from jug.backends.file_store import file_store
    quick = run.tier == 'quick'
    run.rule = ('for representative values (pickles from bytes to MBs, None, arrays: plain/large/empty/0-d/F-order/strided/object/datetime/compressed, containers of arrays), for fresh keys, overwrites of a loose key and of a '
                'packed key, and for the pack rewrite: the real write is executed with every file-system primitive interposed; before EVERY primitive (= every kill point and every instant a reader can look) a fresh store '
                'object reads the live directory (loadable => exactly a value that was written; no temporary file listed as a key; an overwritten key always has its old or new value) and every file reachable under a '
                'final name is checked to be completely fsynced (otherwise power-loss images truncated to the durable length are materialised and read); recorded sequences are translated to the model and checked by the kernel; '
                'non-trivial = a write with at least 6 primitive boundaries; distinct by (case, scenario)')
    run.assumptions = ['POSIX: rename is atomic and replaces; fsync makes file data durable; directory operations become durable in order (a later one never survives an earlier lost one)',
                       'a kill loses the Python-level buffer only; a power loss loses everything not fsynced', 'torn writes below the granularity of one write call and NFS client caching are not exhibited']
    run.trusted = ['Lean 4.33.0 kernel', 'axioms propext, Quot.sound', 'harness/jugverif/fsgate.py + dumpcheck.py (interposition on the names file_store.py uses for file-system access; a real buffered writer subclass keeps NumPy on its direct-descriptor path)']
    extract()
    run.lean(['JugModel.Props.C05', 'jugdrv'], theorems_expected=THEOREMS)
    scratch = core.scratch_dir()
    rng = core.rng_for(run.seed, 'c05')
    try:
        cs = D.cases()
        extra = []
        for i in range(4 if quick else 40):
            n = rng.choice([0, 1, 100, 8191, 8192, 8193, 70000])
            extra.append(('rand-bytes-%d' % i, bytes(rng.getrandbits(8) for _ in range(n)), False))
            extra.append(('rand-arr-%d' % i, (np.arange(rng.choice([0, 1, 7, 1000])) % 5).astype(rng.choice(['u1', 'f4', '<i4', 'c16'])), rng.random() < 0.3))
        total_points = 0
        for name, value, compress in cs + extra:
            for scenario in ('fresh', 'overwrite-loose', 'overwrite-packed'):
                tag = '%s-%s' % (name, scenario)
                jd = os.path.join(scratch, 'd-' + tag)
                stats = {'points': 0, 'powerloss_images': 0, 'prior': set(), 'must_have': ()}
                allowed = {D.KEY: {vcanon(value)}, D.KEY2: {vcanon('other-key-value')}}
                rp = {'kind': 'dump', 'case': name, 'scenario': scenario, 'compress': compress}

                def prep(store, scenario=scenario):
                    store.dump('other-key-value', D.KEY2)
                    if scenario != 'fresh':
                        store.dump(['old', 1], D.KEY)
                    if scenario == 'overwrite-packed':
                        store.update_pack()
                if scenario != 'fresh':
                    allowed[D.KEY].add(vcanon(['old', 1]))
                    stats['must_have'] = (D.KEY, D.KEY2)
                else:
                    stats['must_have'] = (D.KEY2,)
                # prior files are durable by assumption
                s0 = file_store(jd, compress_numpy=compress)
                prep(s0)
                for root, _, files in os.walk(jd):
                    for f in files:
                        stats['prior'].add(os.path.join(root, f))
                probe = make_probe(run, allowed, [D.KEY, D.KEY2], compress, rp, stats)
                store = file_store(jd, compress_numpy=compress)
                rec = D.Recorder(jd, probe)
                from jugverif import fsgate
                undo = fsgate.install(rec, wrap_files=True)
                try:
                    store.dump(value, D.KEY)
                except Exception as e:
                    run.fail('dump-raises', 'dump raised %s: %s' % (type(e).__name__, e), rp)
                finally:
                    undo()
                rec.finish()
                total_points += stats['points']
                run.case(tag, nontrivial=stats['points'] >= 6)
                run.count('kill_and_reader_points', stats['points'])
                run.count('powerloss_images_materialised', stats['powerloss_images'])
                # afterwards: the new value, everything else intact
                view, listing = D.reader_view(jd, [D.KEY, D.KEY2], compress)
                if view.get(D.KEY) != vcanon(value) or view.get(D.KEY2) != vcanon('other-key-value'):
                    run.fail('dump-result', 'after the write the store holds %s' % {k: str(v)[:60] for k, v in view.items()}, rp)
                if sorted(listing) != sorted([D.KEY, D.KEY2]):
                    run.fail('dump-listing', 'after the write list() = %s' % listing, rp)
                if len(run.samples) < 2 and scenario == 'overwrite-packed':
                    run.sample({'case': name, 'scenario': scenario, 'primitive_boundaries_probed': stats['points'], 'recorded': [e[0] for e in rec.events][:40]})
                core.rm_rf(jd)
        # the pack rewrite and `jug pack` themselves
        # a write that FAILS instead of being killed: the value cannot be pickled, or a primitive of the write reports an error (disk full, quota, I/O
        # error). The exception reaches the caller; afterwards the key must not be loadable (fresh key) or still hold its old value, the other key is intact,
        # nothing but stray temporary files is left
        import errno as _errno

        class _Unpicklable:
            def __reduce__(self):
                raise RuntimeError('cannot pickle this on purpose')
        fail_values = [('unpicklable', [1, _Unpicklable()]), ('pickle', list(range(5000))), ('small-dict', {'a': 'b' * 100}), ('array', np.arange(3000.0)), ('zeros', np.zeros(40000)),
                       ('text', 'x' * 20000)]
        for name, value in fail_values:
            for scenario in ('fresh', 'overwrite-loose', 'overwrite-packed'):
                for compress in ((False, True) if name in ('array', 'zeros') else (False,)):
                    # the k-th data primitive (write / flush / fsync on the temporary file) of the write fails, for every k; k = 0: no injection (unpicklable value)
                    k = 0 if name == 'unpicklable' else 1
                    while k < 12:
                        jd = os.path.join(scratch, 'f-%s-%s-%s-%d' % (name, scenario, compress, k))
                        s0 = file_store(jd, compress_numpy=compress)
                        s0.dump('other-key-value', D.KEY2)
                        if scenario != 'fresh':
                            s0.dump(['old', 1], D.KEY)
                        if scenario == 'overwrite-packed':
                            s0.update_pack()
                        nth = {'n': 0, 'fired': None}

                        def hook(prim, path, *extra, nth=nth, k=k):
                            if prim in ('write', 'flush', 'fsync') and isinstance(path, str) and 'tempfiles' in path and not (prim == 'write' and extra and extra[0] == 0):
                                nth['n'] += 1
                                if nth['n'] == k:
                                    nth['fired'] = prim
                                    raise OSError(_errno.ENOSPC if prim != 'fsync' else _errno.EIO, 'injected failure of %s' % prim)
                        store = file_store(jd, compress_numpy=compress)
                        from jugverif import fsgate
                        # the temporary file is wrapped in a plain proxy: NumPy then writes the array data through write() too, so that a failure can be placed between
                        # the header and the data (with a real file object that write happens inside NumPy: `tofile`)
                        undo = fsgate.install(hook, wrap_files=True, plain_proxy=True)
                        raised = None
                        try:
                            store.dump(value, D.KEY)
                        except BaseException as e:
                            raised = e
                        finally:
                            undo()
                        if k and nth['fired'] is None:
                            core.rm_rf(jd)
                            break           # the write has fewer than k data primitives
                        rp = {'kind': 'failing-write', 'case': name, 'scenario': scenario, 'compress': compress, 'failing_primitive': [k, nth['fired']]}
                        run.case(('failing-write', name, scenario, compress, k), nontrivial=True)
                        run.count('failing_writes')
                        view, listing = D.reader_view(jd, [D.KEY, D.KEY2], compress)
                        what = 'the value cannot be pickled' if not k else 'data primitive number %d of the write (%s) failed with an I/O error' % (k, nth['fired'])
                        if raised is None:
                            # the store may recover by itself (write the value another way) - then the value must be there, exactly
                            if view.get(D.KEY) != vcanon(value):
                                run.fail('failed-write-corrupt', 'dump of %s (%s): %s; dump() returned normally, and the key now loads as %s instead of the value written'
                                         % (name, scenario, what, str(view.get(D.KEY))[:100]), rp)
                        else:
                            want = vcanon(['old', 1]) if scenario != 'fresh' else None
                            if view.get(D.KEY) != want:
                                run.fail('failed-write-visible', 'dump of %s (%s): %s and dump() raised %s; afterwards the key loads as %s, expected %s'
                                         % (name, scenario, what, type(raised).__name__, str(view.get(D.KEY))[:80], 'the old value' if want else 'no result'), rp)
                        if view.get(D.KEY2) != vcanon('other-key-value'):
                            run.fail('failed-write-damage', 'dump of %s (%s): %s; another key was damaged: %s' % (name, scenario, what, str(view.get(D.KEY2))[:80]), rp)
                        core.rm_rf(jd)
                        if not k:
                            break
                        k += 1
        # ... and every other operation that rewrites the pack file: removal of a packed key, removal of a loose key of a packed store
        # (remove_many always rewrites the pack), cleanup pruning an inactive packed entry
        KEY3 = b'efkey0000000000000000000000000000000000'

        class _T:
            def __init__(self, h):
                self.h = h

            def hash(self):
                return self.h
        for scen in ('resave', 'update_pack', 'remove-packed', 'remove_many-packed', 'remove_many-loose', 'cleanup-prunes-pack'):
            jd = os.path.join(scratch, 'd-' + scen)
            s0 = file_store(jd)
            s0.dump('v1', D.KEY)
            s0.dump(np.arange(5), D.KEY2)
            if scen in ('remove-packed', 'remove_many-packed', 'cleanup-prunes-pack'):
                s0.dump('third', KEY3)
            if scen != 'update_pack':
                s0.update_pack()
            if scen == 'remove_many-loose':
                s0.dump(list(range(400)), KEY3)      # too large for the pack: stays a loose file
            stats = {'points': 0, 'powerloss_images': 0, 'prior': set(), 'must_have': (D.KEY, D.KEY2)}
            for root, _, files in os.walk(jd):
                for f in files:
                    stats['prior'].add(os.path.join(root, f))
            allowed = {D.KEY: {vcanon('v1')}, D.KEY2: {vcanon(np.arange(5))}, KEY3: {vcanon('third'), vcanon(list(range(400)))}}
            rp = {'kind': 'pack', 'scenario': scen}
            probe = make_probe(run, allowed, [D.KEY, D.KEY2, KEY3], False, rp, stats)
            store = file_store(jd)
            rec = D.Recorder(jd, probe)
            from jugverif import fsgate
            undo = fsgate.install(rec, wrap_files=True)
            try:
                if scen == 'resave':
                    store.resave_pack()
                elif scen == 'update_pack':
                    store.update_pack()
                elif scen == 'remove-packed':
                    store.remove(KEY3)
                elif scen in ('remove_many-packed', 'remove_many-loose'):
                    store.remove_many([KEY3])
                else:
                    store.cleanup([_T(D.KEY), _T(D.KEY2)], keeplocks=False)
            finally:
                undo()
            rec.finish()
            run.case(scen, nontrivial=True)
            run.count('kill_and_reader_points', stats['points'])
        # redis: before every command of an overwriting dump a second client must see the old or the new value
        from jugverif import fakeredis

        def rprobe(srv, name, value, cmd, k):
            hook, srv.hook = srv.hook, None
            try:
                st2 = fakeredis.make_store(srv)
                ok = {vcanon(['old', 1]), vcanon(value)}
                try:
                    got = vcanon(st2.load(D.KEY)) if st2.can_load(D.KEY) else None
                except Exception as e:
                    got = 'EXC %s' % type(e).__name__
                if got not in ok:
                    run.fail('redis-partial', 'redis backend, case %s: before command %s a second client sees key as %s' % (name, cmd, str(got)[:80]), {'kind': 'redis', 'case': name})
                run.count('redis_reader_points', 1)
            finally:
                srv.hook = hook
        D.redis_commands(rprobe)
        run.case('redis', nontrivial=True)
        run.obligation('recorded write sequences of this run are the ones the kernel checked (regenerated before the build)', True)
    finally:
        core.rm_rf(scratch)


def replay(path):
    d = json.load(open(path))
    print(d['what'][:1000])
    print(json.dumps(d['replay'])[:1000])
    return 1
