"""C20 - every command resolves options and the store location the same way"""
import os
import datetime
import io
import json
import logging
import sys

from jugverif import core

LEVEL = 'proof'
THEOREMS = ['Jug.C20.store_location', 'Jug.C20.precedence', 'Jug.C20.table_absent_none', 'Jug.C20.precedence_all', 'Jug.C20.common_options_uniform',
            'Jug.C20.argv_shape', 'Jug.C20.expand_default_template', 'Jug.C20.expand_literal']


def lean_str(s):
    return json.dumps(s)


def lean_val(v):
    if v is None:
        return '.none'
    if v is True:
        return '.bool true'
    if v is False:
        return '.bool false'
    if isinstance(v, int):
        return '.int (%d)' % v
    if isinstance(v, str):
        return '.str %s' % lean_str(v)
    return '.str %s' % lean_str('<%s>' % type(v).__name__)     # anything else (e.g. a list default): not None


def build_parser():
    import argparse
    import jug.options as O
    from jug.subcommands import cmdapi
    parser = argparse.ArgumentParser()
    sub = parser.add_subparsers(dest="subcommand")
    subparsers = cmdapi.get_subcommand_parsers(sub)
    for sp in subparsers:
        O.add_common_options(sp)
        sp.add_argument('user_args', nargs='*', default=[])
    return sub.choices


def tables():
    import jug.options as O
    choices = build_parser()
    rows = []
    for name, sp in sorted(choices.items()):
        for a in sp._actions:
            rows.append({'sub': name, 'dest': a.dest, 'action': type(a).__name__.strip('_'), 'absent': a.default, 'flags': list(a.option_strings),
                         'nargs': a.nargs, 'type': getattr(a.type, '__name__', None), 'required': a.required, 'const': a.const})
    d = O.default_options
    d.jugfile
    defaults = {}
    for layer in (d.next.__dict__, d.__dict__):
        for k, v in layer.items():
            if k in ('next', '_autoinit', 'print_out'):
                continue
            defaults[k] = v
    return rows, defaults


def extract():
    rows, defaults = tables()
    txt = 'import JugModel.Model.Options\nnamespace Jug.Generated.Options\nopen Jug.Opt\n'
    txt += '/-- every argparse action of every subcommand (introspected from the parser jug builds) -/\n'
    txt += 'def optionTable : List OptDecl := [\n'
    txt += ',\n'.join('  ⟨%s, %s, %s, %s⟩' % (lean_str(r['sub']), lean_str(r['dest']), lean_str(r['action']), lean_val(r['absent'])) for r in rows)
    txt += ']\n'
    txt += '/-- built-in defaults (default_options and the subcommands\' parse_defaults) -/\n'
    txt += 'def defaults : List (String × Val) := [\n'
    txt += ',\n'.join('  (%s, %s)' % (lean_str(k), lean_val(v)) for k, v in sorted(defaults.items()))
    txt += ']\n'
    txt += 'def subcommands : List String := [%s]\n' % ', '.join(lean_str(s) for s in sorted(set(r['sub'] for r in rows)))
    txt += 'end Jug.Generated.Options\n'
    core.write_generated('OptionTable', txt)
    return rows, defaults


def real_parse(args, ini_text):
    import jug.options as O
    saved_argv = list(sys.argv)
    root = logging.getLogger()
    lvl = root.level
    out, errs = io.StringIO(), io.StringIO()
    so, se = sys.stdout, sys.stderr
    sys.stdout, sys.stderr = out, errs
    try:
        o = O.parse(list(args), optionsfile=io.StringIO(ini_text))
        argv = list(sys.argv)
        return o, argv, None
    except SystemExit as e:
        return None, None, 'SystemExit(%s): %s' % (e.code, errs.getvalue().strip().split('\n')[-1][:200])
    except Exception as e:
        return None, None, '%s: %s' % (type(e).__name__, e)
    finally:
        sys.stdout, sys.stderr = so, se
        sys.argv[:] = saved_argv
        root.level = lvl


WORDS = ['a', 'b1', 'data', 'x.py', 'foo-bar', 'r_2', 'out.txt', 'UP', '0', '17', 'été', 'a b', 'k=v', 'redis://h:1', 'dict_store', '@alice', '@out.txt', '+x', '#tag']
BOOLS = ['1', 'true', 'false', '0', '', 'yes', 'off', 'no']


def section_key(dest, subs):
    for s in sorted(subs, key=len, reverse=True):
        p = s.replace('-', '_') + '_'
        if dest.startswith(p):
            return s, dest[len(p):].replace('_', '-')
    return 'main', dest.replace('_', '-')


def gen_case(rng, rows, defaults, malformed=False):
    subs = sorted(set(r['sub'] for r in rows))
    sub = rng.choice(subs)
    decls = [r for r in rows if r['sub'] == sub and r['dest'] not in ('help', 'user_args', 'jugfile')]
    given, opts = {}, []
    p_cmd = rng.choice([0.0, 0.3, 0.7])
    excl_used = False
    for r in decls:
        take = rng.random() < p_cmd or r['required']
        if not take:
            continue
        if r['dest'].startswith('cleanup_'):
            if excl_used:
                continue
            excl_used = True
        flag = rng.choice(r['flags'])
        if r['action'] in ('StoreConstAction', 'StoreTrueAction', 'StoreFalseAction'):
            opts.append([flag])
            given[r['dest']] = r['const']
        elif r['action'] == 'StoreAction':
            if r['type'] == 'int':
                v = rng.choice([0, 1, 5, 12, 150, 1000])
                opts.append([flag, str(v)])
                given[r['dest']] = v
            else:
                if r['dest'] == 'jugdir':
                    v = gen_template(rng, malformed)
                elif r['dest'] == 'verbose':
                    v = rng.choice(['quiet', 'silent', 'v'])
                else:
                    v = rng.choice(WORDS)
                opts.append([flag, v])
                given[r['dest']] = v
    rng.shuffle(opts)
    # configuration file
    ini = {}
    p_ini = rng.choice([0.0, 0.4, 0.8])
    for dest, dv in sorted(defaults.items()):
        if dest in ('subcommand', 'argv'):
            continue
        if rng.random() >= p_ini:
            continue
        if isinstance(dv, bool):
            ini[dest] = rng.choice(BOOLS)
        elif isinstance(dv, int):
            ini[dest] = rng.choice(['0', '3', '42', '-1', '600']) if not (malformed and rng.random() < 0.5) else rng.choice(['abc', '1.5', ''])
        elif dest == 'jugdir':
            ini[dest] = gen_template(rng, malformed)
        elif dest == 'jugfile':
            ini[dest] = rng.choice(['other.py', 'p/q.py', 'x.jug.py', 'ab'])
        elif dest == 'verbose':
            ini[dest] = rng.choice(['quiet', 'none'])
        else:
            ini[dest] = rng.choice(WORDS)
    # positionals: options first, then jugfile and extra args (the documented command shape)
    pos, after = [], None
    shape = rng.choice(['none', 'jf', 'jf+extra', 'jf+dd', 'jf+extra+dd', 'dd-first'])
    jf = rng.choice(['jugfile.py', 'my.file.py', 'dir/sub/j.py', 'x.py', 'abc', 'a.b', 'happy.py', 'study.py', 'p.py', 'copy.p.py', 'spy..py'])
    extras = [rng.choice(WORDS) for _ in range(rng.randint(1, 3))]
    dashed = [rng.choice(WORDS + ['--flag', '-x', '--jugdir', '-', '--verbose=1']) for _ in range(rng.randint(0, 3))]
    if shape == 'jf':
        pos = [jf]
    elif shape == 'jf+extra':
        pos = [jf] + extras
    elif shape == 'jf+dd':
        pos, after = [jf], dashed
    elif shape == 'jf+extra+dd':
        pos, after = [jf] + extras, dashed
    elif shape == 'dd-first':
        pos, after = [], [jf] + dashed
    args = [sub] + [t for o in opts for t in o] + pos + (['--'] + after if after is not None else [])
    sections = {}
    for dest, v in ini.items():
        s, k = section_key(dest, subs)
        sections.setdefault(s, []).append((k, v))
    ini_text = ''
    for s in sorted(sections):
        ini_text += '[%s]\n' % s + ''.join('%s = %s\n' % (k, v.replace('%', '%')) for k, v in sections[s])
    return {'sub': sub, 'args': args, 'given': given, 'ini': ini, 'ini_text': ini_text, 'positionals': pos, 'after': after, 'shape': shape}


def gen_template(rng, malformed):
    parts = []
    for _ in range(rng.randint(1, 4)):
        parts.append(rng.choice(['%(jugfile)s', '%(date)s', '%%', 'data', '.jugdata', '/tmp/x/', '-', 'st_']))
    if malformed and rng.random() < 0.7:
        if rng.random() < 0.5:
            parts.insert(rng.randint(0, len(parts)), '%(nokey)s')
        else:
            parts.append(rng.choice(['%(jugfile', '%']))     # incomplete format at the very end
    while parts and parts[0] == '-':
        parts.pop(0)
    if not parts:
        parts = ['data']
    t = ''.join(parts)
    if malformed and t.endswith('%') and not t.endswith('%%'):
        return t
    return t


def canon(v):
    if v is None or isinstance(v, (bool, int, str)):
        return v
    return '<%s>' % type(v).__name__


def check(run):
    quick = run.tier == 'quick'
    run.rule = ('random (subcommand, subset of its options on the command line, subset of all options in the ini file, positional shape) '
                'from VERIF_SEED plus a malformed stream (bad ints, bad jugdir templates); every resolved option of the subcommand, jugdir and '
                'sys.argv compared between jug.options.parse and the Lean model, and against the specification cmdline > coerced ini > default; '
                'non-trivial = at least one option on the command line and one in the ini file; distinct by (args, ini)')
    run.assumptions = ['argparse of the running CPython (option/positional splitting) is taken as given for the documented command shape '
                       '`jug SUB [options] JUGFILE [extra...] [-- extra...]`', 'configparser value parsing', 'HOME has no jugrc (set by ./check)']
    run.trusted = ['Lean 4.33.0 kernel', 'axioms propext, Classical.choice, Quot.sound', 'harness/jugverif/props/c20.py (extractor by introspection of the argparse parser jug builds; differential driver)']
    rows, defaults = extract()
    run.lean(['JugModel.Props.C20', 'jugdrv'], theorems_expected=THEOREMS)
    drv = core.Driver() if run.driver_ok else None
    rng = core.rng_for(run.seed, 'c20')
    date = datetime.datetime.now().strftime('%Y-%m-%d')
    n = 1500 if quick else 20000
    subs_seen, shapes = set(), {}
    for i in range(n):
        malformed = (i % 5 == 4)
        c = gen_case(rng, rows, defaults, malformed)
        o, argv, err = real_parse(c['args'], c['ini_text'])
        if datetime.datetime.now().strftime('%Y-%m-%d') != date:
            date = datetime.datetime.now().strftime('%Y-%m-%d')
            continue
        subs_seen.add(c['sub'])
        shapes[c['shape']] = shapes.get(c['shape'], 0) + 1
        run.case((tuple(c['args']), c['ini_text']), nontrivial=bool(c['given']) and bool(c['ini']))
        run.count('malformed' if malformed else 'wellformed')
        req = {'op': 'opt', 'sub': c['sub'], 'given': c['given'], 'ini': c['ini'], 'date': date, 'positionals': c['positionals'], 'after': c['after']}
        ans = drv.ask(req) if drv is not None else None
        rp = {'kind': 'parse', 'args': c['args'], 'ini_text': c['ini_text']}
        if err is not None:
            run.count('real_errors')
            if ans is not None:
                run.corr_programs += 1
                if 'error' not in ans:
                    run.corr_disagreements += 1
                    run.obligation('correspondence model=code (options)', False, 'code raises %s, model answers, req=%s' % (err, json.dumps(req)))
            if not malformed:
                run.fail('parse-rejects-wellformed', 'parse(%r) with ini %r fails: %s' % (c['args'], c['ini_text'], err), rp)
            continue
        # the specification, evaluated directly on the real answer (monitor)
        dests = [r['dest'] for r in rows if r['sub'] == c['sub'] and r['dest'] not in ('help', 'user_args')] + list(defaults)
        real_vals = {}
        for dest in dict.fromkeys(dests):
            if dest in ('subcommand', 'argv'):
                continue
            real_vals[dest] = canon(getattr(o, dest, None))
        jf_expected = (c['positionals'] + (c['after'] or []))[0] if (c['positionals'] + (c['after'] or [])) else None
        for dest, rv in real_vals.items():
            g = c['given'].get(dest) if dest != 'jugfile' else jf_expected
            if g is not None:
                exp = g
            elif dest in c['ini']:
                dv = defaults.get(dest)
                exp = type(dv)(c['ini'][dest]) if dv is not None else c['ini'][dest]
            else:
                exp = defaults.get(dest)
            if dest == 'jugdir':
                jf = real_vals['jugfile']
                exp = exp % {'date': date, 'jugfile': jf[:-3]}
            if canon(exp) != rv or type(canon(exp)) != type(rv):
                src = 'command line' if g is not None else ('configuration file' if dest in c['ini'] else 'default')
                run.fail('precedence:%s:%s' % (dest, src), 'option %s of `jug %s` resolves to %r, expected %r (from the %s); ini=%r' % (dest, ' '.join(c['args']), rv, exp, src, c['ini_text']), rp)
        exp_argv = [real_vals['jugfile']] + (c['positionals'] + (c['after'] or []))[1:]
        if argv != exp_argv:
            run.fail('argv', 'sys.argv seen by the jugfile is %r, expected %r for `jug %s`' % (argv, exp_argv, ' '.join(c['args'])), rp)
        if ans is not None:
            run.corr_programs += 1
            mv = ans.get('values')
            if 'error' in ans or mv is None or any(mv.get(k) != v for k, v in real_vals.items()) or ans.get('argv') != argv:
                run.corr_disagreements += 1
                diff = {k: (mv.get(k), v) for k, v in real_vals.items() if mv.get(k) != v} if mv else ans
                run.obligation('correspondence model=code (options)', False, 'req=%s (model, code) differ on %s argv model=%s code=%s' % (json.dumps(req), diff, ans.get('argv'), argv))
        if len(run.samples) < 3 and c['given'] and c['ini']:
            run.sample({'args': c['args'], 'ini': c['ini_text'], 'resolved': {k: real_vals[k] for k in list(c['given'])[:3] + list(c['ini'])[:3] if k in real_vals}, 'argv': argv})
    # jugdir must be the same whichever subcommand runs
    for i in range(40 if quick else 400):
        tmpl = gen_template(rng, False)
        jf = rng.choice(['jugfile.py', 'my.file.py', 'dir/j.py', 'happy.py', 'study.py', 'p.py'])
        seen = {}
        for sub in sorted(set(r['sub'] for r in rows)):
            extra = ['--target', 'x'] if sub == 'invalidate' else []
            o, argv, err = real_parse([sub, '--jugdir', tmpl] + extra + [jf], '')
            seen[sub] = err or o.jugdir
        run.case(('jugdir', tmpl, jf), nontrivial='%(' in tmpl)
        if len(set(seen.values())) != 1:
            run.fail('jugdir-differs', 'jugdir template %r with jugfile %r expands differently per subcommand: %r' % (tmpl, jf, seen), {'kind': 'jugdir', 'template': tmpl, 'jugfile': jf})
        if drv is not None:
            a = drv.ask({'op': 'expand', 'template': tmpl, 'jugfile': jf, 'date': date})
            run.corr_programs += 1
            if a != list(seen.values())[0]:
                run.corr_disagreements += 1
                run.obligation('correspondence model=code (jugdir expansion)', False, 'template=%r jugfile=%r model=%r code=%r' % (tmpl, jf, a, seen))
    store_family(run, drv, rng, date, quick)
    fresh_process_family(run, rows, defaults, rng, 6 if quick else 60)
    persistent_dict_family(run)
    user_subcommand_family(run)
    run.counts['subcommands_seen'] = len(subs_seen)
    run.counts['shapes'] = shapes
    if drv is not None:
        if run.corr_disagreements == 0:
            run.obligation('correspondence model=code on %d parse() calls' % run.corr_programs, True)
        drv.close()


FRESH = '''
import sys, json
import jug.options as O
args, dests = json.loads(sys.argv[1]), json.loads(sys.argv[2])      # parse() rewrites sys.argv for the jugfile
o = O.parse(args)
out = {}
for d in dests:
    v = getattr(o, d, None)
    out[d] = [type(v).__name__, repr(v)]
print('RESULT ' + json.dumps(out))
'''

RC_LOCATIONS = ['.config/jug/jugrc', '.config/jugrc', '.jug/configrc']      # in order of preference: the first that exists is THE configuration file


def fresh_process_family(run, rows, defaults, rng, n):
    """`jug SUB jugfile.py` as the first thing a new interpreter does (nothing of jug imported before), with the user's configuration in $HOME: the file
    that counts is the first existing one of the three documented locations; every value in it is converted to the type of the option's default -
    also for options that only a subcommand defines; a configuration file further down the list contributes nothing"""
    import subprocess
    subs = sorted(set(r['sub'] for r in rows))
    for i in range(n):
        c = gen_case(rng, rows, defaults, False)
        while not c['ini'] or any(k in c['ini'] for k in ('jugfile',)):
            c = gen_case(rng, rows, defaults, False)
        sub = subs[i % len(subs)]
        args = [sub] + (['--target', 'x'] if sub == 'invalidate' else []) + ['jugfile.py']
        home = core.scratch_dir('jugverif-home-')
        try:
            # which locations exist: the real configuration at `main_loc`, decoys (other values for other and for the same keys) further down the list
            main_loc = rng.randrange(3)
            decoys = [j for j in range(main_loc + 1, 3) if rng.random() < 0.7]
            decoy_ini = {}
            for dest, dv in sorted(defaults.items()):
                if dest in ('subcommand', 'argv', 'jugfile', 'jugdir', 'verbose') or rng.random() < 0.4:
                    continue
                decoy_ini[dest] = '1' if isinstance(dv, bool) else ('77' if isinstance(dv, int) else 'decoy')

            def text_of(ini):
                sections = {}
                for dest, v in ini.items():
                    sct, k = section_key(dest, subs)
                    sections.setdefault(sct, []).append((k, v))
                return ''.join('[%s]\n' % sct + ''.join('%s = %s\n' % kv for kv in sections[sct]) for sct in sorted(sections))
            for j in [main_loc] + decoys:
                fn = os.path.join(home, RC_LOCATIONS[j])
                os.makedirs(os.path.dirname(fn), exist_ok=True)
                with open(fn, 'w') as f:
                    f.write(c['ini_text'] if j == main_loc else text_of(decoy_ini))
            dests = [d for d in dict.fromkeys([r['dest'] for r in rows if r['sub'] == sub and r['dest'] not in ('help', 'user_args')] + list(defaults))
                     if d not in ('subcommand', 'argv', 'jugfile', 'jugdir')]
            env = dict(os.environ, HOME=home, PYTHONPATH=core.REPO)
            p = subprocess.run([sys.executable, '-c', FRESH, json.dumps(args), json.dumps(dests)], cwd=home, env=env, stdout=subprocess.PIPE, stderr=subprocess.PIPE, text=True, timeout=120)
            rp = {'kind': 'fresh-process-parse', 'args': args, 'files': {RC_LOCATIONS[j]: (c['ini_text'] if j == main_loc else text_of(decoy_ini)) for j in [main_loc] + decoys}}
            run.case(('fresh-parse', i, run.seed), nontrivial=bool(decoys))
            run.count('fresh_process_parses')
            line = [ln for ln in p.stdout.splitlines() if ln.startswith('RESULT ')]
            if p.returncode != 0 or not line:
                run.fail('parse-rejects-wellformed', 'in a new interpreter parse(%r) with the configuration files %s fails: %s' % (args, sorted(rp['files']), (p.stderr or p.stdout)[-300:]), rp)
                continue
            got = json.loads(line[-1][7:])
            for dest in dests:
                dv = defaults.get(dest)
                if sub == 'invalidate' and dest == 'invalid_name':
                    exp, src = 'x', 'the command line (--target x)'
                elif dest in c['ini']:
                    exp = type(dv)(c['ini'][dest]) if dv is not None else c['ini'][dest]
                    src = 'the configuration file ~/%s' % RC_LOCATIONS[main_loc]
                else:
                    exp = dv
                    src = 'the default (~/%s does not set it%s)' % (RC_LOCATIONS[main_loc], '; ~/%s, further down the list, is not the configuration file' % RC_LOCATIONS[decoys[0]] if decoys and dest in decoy_ini else '')
                if got.get(dest) != [type(exp).__name__, repr(exp)]:
                    run.fail('fresh-precedence:%s' % dest, 'a new interpreter running `jug %s`: option %s is %s %s, expected %s %r from %s' % (' '.join(args), dest, got.get(dest, ['?', '?'])[0], got.get(dest, ['?', '?'])[1],
                                                                                                                                     type(exp).__name__, exp, src), rp)
                    break
        finally:
            core.rm_rf(home)


USERCMD = '''
from jug.subcommands import SubCommand


class FancyReport(SubCommand):
    "a subcommand of the user (the documented extension point)"
    name = "fancy-report"

    def run(self, *args, **kwargs):
        return 0

    def parse(self, parser):
        parser.add_argument("--to-file", dest="fancy_report_to_file", action="store")
        parser.add_argument("--max-rows", dest="fancy_report_max_rows", action="store", type=int)

    def parse_defaults(self):
        return {"fancy_report_to_file": "out.txt", "fancy_report_max_rows": 10}


fancy_report = FancyReport()
'''


def user_subcommand_family(run):
    """a subcommand defined by the user (~/.config/jug/jug_user_commands.py) whose name has a hyphen, configured in the section of that name: its options follow the same chain -
    command line, then the configuration file converted to the type of the default, then the default"""
    import subprocess
    for given, ini, want in (([], '[fancy-report]\nto-file = report.csv\nmax-rows = 25\n', {'fancy_report_to_file': ['str', "'report.csv'"], 'fancy_report_max_rows': ['int', '25']}),
                             (['--max-rows', '7'], '[fancy-report]\nto-file = report.csv\nmax-rows = 25\n', {'fancy_report_to_file': ['str', "'report.csv'"], 'fancy_report_max_rows': ['int', '7']}),
                             ([], '[main]\nwill-cite = 1\n', {'fancy_report_to_file': ['str', "'out.txt'"], 'fancy_report_max_rows': ['int', '10']})):
        home = core.scratch_dir('jugverif-home-')
        try:
            os.makedirs(os.path.join(home, '.config', 'jug'))
            open(os.path.join(home, '.config', 'jug', 'jug_user_commands.py'), 'w').write(USERCMD)
            open(os.path.join(home, '.config', 'jug', 'jugrc'), 'w').write(ini)
            args = ['fancy-report'] + given + ['jugfile.py']
            env = dict(os.environ, HOME=home, PYTHONPATH=core.REPO)
            p = subprocess.run([sys.executable, '-c', FRESH, json.dumps(args), json.dumps(sorted(want))], cwd=home, env=env, stdout=subprocess.PIPE, stderr=subprocess.PIPE, text=True, timeout=120)
            rp = {'kind': 'user-subcommand', 'args': args, 'jugrc': ini}
            run.case(('user-subcommand', tuple(given), ini), nontrivial=True)
            run.count('user_subcommand_parses')
            line = [ln for ln in p.stdout.splitlines() if ln.startswith('RESULT ')]
            if p.returncode != 0 or not line:
                run.fail('parse-rejects-wellformed', 'a user-defined subcommand `fancy-report`: parse(%r) fails: %s' % (args, (p.stderr or p.stdout)[-300:]), rp)
                continue
            got = json.loads(line[-1][7:])
            for k_, v_ in want.items():
                if got.get(k_) != v_:
                    run.fail('user-subcommand-precedence:%s' % k_, 'a user-defined subcommand `fancy-report` with jugrc %r and command line %r: option %s is %s %s, expected %s %s'
                             % (ini, given, k_, got.get(k_, ['?', '?'])[0], got.get(k_, ['?', '?'])[1], v_[0], v_[1]), rp)
                    break
        finally:
            core.rm_rf(home)


def persistent_dict_family(run):
    """a project kept in the in-memory backend with a backing file (`--jugdir dict_store:<file>`): what `jug execute` computed is there for the next command - `jug check` agrees,
    a second execute runs nothing, invalidate is seen by the next process"""
    from jugverif.loadercheck import jug_cli
    d = core.scratch_dir('jugverif-dictproj-')
    try:
        with open(os.path.join(d, 'jugfile.py'), 'w') as f:
            f.write("from jug import TaskGenerator\nimport os\nHERE = os.path.dirname(os.path.abspath(__file__))\n@TaskGenerator\ndef f(x):\n    open(os.path.join(HERE, 'calls.log'), 'a').write('f\\n')\n    return x + 1\n"
                    "@TaskGenerator\ndef g(x):\n    open(os.path.join(HERE, 'calls.log'), 'a').write('g\\n')\n    return x * 2\na = f(1)\nb = f(a)\nc = g(b)\n")
        jd = ['--jugdir', 'dict_store:project.store', '--will-cite']
        rp = {'kind': 'persistent-dict-project'}
        run.case(('persistent-dict-project',), nontrivial=True)
        run.count('persistent_dict_projects')

        def ncalls():
            try:
                return len(open(os.path.join(d, 'calls.log')).read().split())
            except IOError:
                return 0
        ex = jug_cli(['execute'] + jd + ['--nr-wait-cycles', '1', '--wait-cycle-time', '0', 'jugfile.py'], d)
        n1 = ncalls()
        chk = jug_cli(['check'] + jd + ['jugfile.py'], d)
        ex2 = jug_cli(['execute'] + jd + ['--nr-wait-cycles', '1', '--wait-cycle-time', '0', 'jugfile.py'], d)
        n2 = ncalls()
        if ex.returncode != 0 or n1 != 3:
            run.fail('dict-project-execute', '`jug execute --jugdir dict_store:project.store` exits %s after %d of 3 task invocations: %s' % (ex.returncode, n1, ex.stdout[-300:]), rp)
        elif chk.returncode != 0 or n2 != n1:
            run.fail('store-differs:dict-file', 'project in `--jugdir dict_store:project.store`: after a complete `jug execute`, `jug check` (a new process) exits %s and a second `jug execute` invokes %d task '
                     'functions again: the results of the first run were not kept in the backing file (%s)' % (chk.returncode, n2 - n1, 'it exists' if os.path.exists(os.path.join(d, 'project.store')) else 'it was never written'), rp)
        else:
            inv = jug_cli(['invalidate'] + jd + ['--target', 'g', 'jugfile.py'], d)
            chk2 = jug_cli(['check'] + jd + ['jugfile.py'], d)
            if chk2.returncode == 0:
                run.fail('store-differs:dict-file-invalidate', 'project in `--jugdir dict_store:project.store`: after `jug invalidate --target g` (exit %s) a new process still finds every result (`jug check` exits 0): '
                         'the invalidation did not reach the backing file' % inv.returncode, rp)
    finally:
        core.rm_rf(d)


PROJECT = """import sys
sys.path.insert(0, %(harness)r)
import jug
%(override)s
from jug import TaskGenerator
@TaskGenerator
def f(x):
    return x + 1
@TaskGenerator
def g(a, b):
    return [a, b]
a = f(1)
b = f(2)
c = g(a, b)
"""


def find_stores(cwd):
    """directories below cwd that hold jug results (two-hex-digit subdirectories with files)"""
    found = {}
    for root, dirs, files in os.walk(cwd):
        n = 0
        for d in dirs:
            if len(d) == 2 and all(ch in '0123456789abcdef' for ch in d):
                n += len(os.listdir(os.path.join(root, d)))
        if n or 'locks' in dirs or 'tempfiles' in dirs:
            found[os.path.relpath(root, cwd)] = n
        dirs[:] = [d for d in dirs if not (len(d) == 2 and all(ch in '0123456789abcdef' for ch in d)) and d not in ('locks', 'tempfiles', 'packs')]
    return found


def store_case(cfg):
    """run every store-using subcommand of one project as a real process; returns observations"""
    from jugverif.loadercheck import jug_cli
    from jugverif import core as _core
    cwd = cfg['cwd']
    os.makedirs(os.path.join(cwd, os.path.dirname(cfg['jugfile']) or '.'), exist_ok=True)
    ov = ('jug.set_jugdir(%r)' % cfg['override']) if cfg['override'] else ''
    with open(os.path.join(cwd, cfg['jugfile']), 'w') as f:
        f.write(PROJECT % {'harness': os.path.join(_core.VERIF, 'harness'), 'override': ov})
    if cfg['ini'] is not None:
        os.makedirs(os.path.join(cwd, '.config'), exist_ok=True)
        with open(os.path.join(cwd, '.config', 'jugrc'), 'w') as f:
            f.write('[main]\njugdir = %s\n' % cfg['ini'])
    common = (['--jugdir', cfg['cli']] if cfg['cli'] is not None else [])
    obs = {'steps': []}

    def cli(sub, *extra):
        r = jug_cli([sub] + common + list(extra) + [cfg['jugfile']], cwd)
        obs['steps'].append((sub, r.returncode, r.stdout[-300:]))
        return r
    # a first look with the cache while nothing is computed yet (creates the cache file of `status --cache`)
    cli('status', '--cache')
    import shutil as _sh
    for k_ in list(find_stores(cwd)):
        pass
    r = cli('execute')
    obs['after_execute'] = find_stores(cwd)
    # the store `jug execute` really used (the model's expectation is compared separately): every other command must use the same one
    used = [k for k, v in obs['after_execute'].items() if v]
    if len(used) != 1 or obs['after_execute'][used[0]] != 3:
        return obs
    E = used[0]
    obs['store_used'] = E
    obs['check_rc'] = cli('check').returncode
    # the same location addressed through the plain file backend (a keep-alive store is an ordinary file store as far as results go: `jug status` of a colleague
    # without the prefix, a script opening the directory): it must be the directory the prefixed commands used
    tmpl_ = cfg['cli'] if cfg['cli'] is not None else cfg['ini']
    if isinstance(tmpl_, str) and tmpl_.startswith('file_keepalive:') and not cfg['override']:
        plain_ = tmpl_[len('file_keepalive:'):]
        rr = jug_cli(['check', '--jugdir', plain_, cfg['jugfile']], cwd)
        obs['check_plain'] = (plain_, rr.returncode)
    obs['sleep_until_rc'] = 0
    if obs['check_rc'] == 0:        # otherwise it would (rightly, from its point of view) wait for ever
        import subprocess
        try:
            obs['sleep_until_rc'] = jug_cli(['sleep-until'] + common + [cfg['jugfile']], cwd, timeout=120).returncode
        except subprocess.TimeoutExpired:
            obs['sleep_until_rc'] = 'no return within 120 s'
    st = cli('status')
    # the cached variant, twice (the second call goes through the cache file)
    stc1 = cli('status', '--cache')
    stc2 = cli('status', '--cache')
    obs['status_cached_out'] = [stc1.stdout, stc2.stdout]
    obs['status_out'] = st.stdout
    cnt = cli('count')
    obs['count_out'] = cnt.stdout
    # plant a stray result and a stale lock in the expected store
    from jug.backends.file_store import file_store
    fs = file_store(os.path.join(cwd, E))
    stray = b'ffstraystraystraystraystraystraystray00'
    fs.dump('stray', stray)
    fs.getlock(b'eelocklocklocklocklocklocklocklocklock0').get()
    fs.close()
    cli('cleanup', '--locks-only')
    obs['locks_left'] = len(os.listdir(os.path.join(cwd, E, 'locks'))) if os.path.isdir(os.path.join(cwd, E, 'locks')) else 0
    cli('cleanup')
    obs['stray_left'] = file_store(os.path.join(cwd, E)).can_load(stray)
    obs['results_before_invalidate'] = find_stores(cwd).get(E, 0)
    cli('invalidate', '--target', 'f')
    obs['results_after_invalidate'] = find_stores(cwd).get(E, 0)
    obs['stores_at_end'] = find_stores(cwd)
    return obs


def store_family(run, drv, rng, date, quick):
    """all commands of one project must operate on the same store (real processes, real directories)"""
    from concurrent.futures import ThreadPoolExecutor
    scratch = core.scratch_dir()
    cfgs = []
    base = [dict(cli=None, ini=None, override=None), dict(cli='mystore', ini=None, override=None), dict(cli=None, ini='%(jugfile)s.fromrc', override=None),
            dict(cli='cli-%(jugfile)s-d', ini='rc.store', override=None), dict(cli=None, ini=None, override='chosen.by.jugfile'), dict(cli='viacli', ini=None, override='chosen2'),
            dict(cli=None, ini='%(date)s.rc', override='sub/chosen3'),
            # a leading ~ is not special to jug (the shell expands it when it is unquoted): every command must treat it the same way
            dict(cli=None, ini='~/tilde/%(jugfile)s.st', override=None), dict(cli='~/t2', ini=None, override=None),
            # a colon inside the location (time stamps, drive-like names): part of the path for the file backends - with and without a backend prefix
            dict(cli='runs-12:30/%(jugfile)s.st', ini=None, override=None), dict(cli='file_keepalive:ka-12:30/%(jugfile)s.d', ini=None, override=None),
            dict(cli=None, ini='file_keepalive:rc:%(jugfile)s:x', override=None)]
    for i in range(0 if quick else 12):
        t = gen_template(rng, False)
        if t.startswith('-') or '/' in t or t in ('dict_store',) or t.startswith('redis:') or not t.strip():
            continue
        base.append(dict(cli=rng.choice([None, t]), ini=rng.choice([None, t + '.rc']), override=rng.choice([None, None, 'ov%d' % i])))
    for i, b in enumerate(base):
        jf = ['jugfile.py', 'proj.py', 'dir/j.py', 'study.py', 'happy.py'][i % 5]
        tmpl = b['cli'] if b['cli'] is not None else (b['ini'] if b['ini'] is not None else '%(jugfile)s.jugdata')
        exp = None
        if drv is not None:
            exp = drv.ask({'op': 'storefor', 'template': tmpl, 'jugfile': jf, 'date': date, 'override': b['override']})
        else:
            exp = b['override'] or (tmpl % {'jugfile': jf[:-3], 'date': date})
        if isinstance(exp, str) and exp.startswith('file_keepalive:'):
            exp = exp[len('file_keepalive:'):]        # the keep-alive file backend: same directory layout, the location is what follows the prefix
        cfgs.append(dict(b, jugfile=jf, cwd=os.path.join(scratch, 'p%d' % i), expected=exp, template=tmpl))
    try:
        with ThreadPoolExecutor(8) as ex:
            results = list(ex.map(store_case, cfgs))
        for cfg, obs in zip(cfgs, results):
            rp = {'kind': 'store', 'cfg': {k: cfg[k] for k in ('cli', 'ini', 'override', 'jugfile')}}
            desc = 'project %s (--jugdir %r, jugrc jugdir %r, jugfile calls set_jugdir(%r))' % (cfg['jugfile'], cfg['cli'], cfg['ini'], cfg['override'])
            run.case(('store', json.dumps(rp, sort_keys=True)), nontrivial=True)
            run.count('store_projects')
            E = cfg['expected']
            ae = {os.path.normpath(k): v for k, v in obs['after_execute'].items() if v}
            if drv is not None:
                run.corr_programs += 1
                if list(ae) != [os.path.normpath(E)] or ae[os.path.normpath(E)] != 3:
                    run.corr_disagreements += 1
                    run.obligation('correspondence model=code (store location)', False, '%s: execute put its results in %s, model says %s; steps %s' % (desc, ae, E, obs['steps'][:1]))
            if 'store_used' not in obs:
                run.fail('store-location:execute', '%s: `jug execute` did not put its 3 results into exactly one store: %s (the model expects %r)' % (desc, ae, E), rp)
                continue
            if obs['check_rc'] != 0:
                run.fail('store-differs:check', '%s: after a complete `jug execute`, `jug check` exits %s: it looks at a different store' % (desc, obs['check_rc']), rp)
            if obs.get('check_plain') and obs['check_plain'][1] != 0:
                run.fail('store-differs:prefix', '%s: after a complete `jug execute`, `jug check --jugdir %s` (the same location without the backend prefix) exits %s: the prefixed commands used the directory %r'
                         % (desc, obs['check_plain'][0], obs['check_plain'][1], obs.get('store_used')), rp)
            if obs['sleep_until_rc'] != 0:
                run.fail('store-differs:sleep-until', '%s: after a complete `jug execute`, `jug sleep-until` exits %s' % (desc, obs['sleep_until_rc']), rp)
            if obs['locks_left'] != 0:
                run.fail('store-differs:cleanup-locks', '%s: `jug cleanup --locks-only` leaves %d lock(s) in the store execute used' % (desc, obs['locks_left']), rp)
            if obs['stray_left']:
                run.fail('store-differs:cleanup', '%s: `jug cleanup` leaves a stray result in the store execute used' % desc, rp)
            if not (obs['results_before_invalidate'] == 3 and obs['results_after_invalidate'] == 0):
                run.fail('store-differs:invalidate', '%s: `jug invalidate --target f` leaves %d of %d results in the store execute used' % (desc, obs['results_after_invalidate'], obs['results_before_invalidate']), rp)
            tot = [l.split() for l in obs['status_out'].split('\n') if l.strip().endswith('Total')]
            if not tot or tot[0][:5] != ['0', '0', '0', '3', '0']:
                run.fail('store-differs:status', '%s: `jug status` after a complete run prints totals %r (failed, waiting, ready, complete, active)' % (desc, tot[:1]), rp)
            for which, outc in zip(('first', 'second'), obs.get('status_cached_out', [])):
                totc = [l.split() for l in outc.split('\n') if l.strip().endswith('Total')]
                if not totc or totc[0][:5] != ['0', '0', '0', '3', '0']:
                    key = 'K3:status-cache-ignores-set_jugdir' if cfg['override'] else 'store-differs:status-cache'
                    run.fail(key, '%s: the %s `jug status --cache` after a complete run prints totals %r (failed, waiting, ready, complete, active)' % (desc, which, totc[:1]), rp)
            E = obs['store_used']
            extra = [k for k in obs['stores_at_end'] if os.path.normpath(k) != os.path.normpath(E)]
            if extra:
                run.fail('second-store', '%s: the commands created/used other stores besides %r: %s' % (desc, E, extra), rp)
    finally:
        core.rm_rf(scratch)


def replay(path):
    d = json.load(open(path))
    r = d['replay']
    print('replaying', json.dumps(r)[:500])
    if r.get('kind') == 'parse':
        o, argv, err = real_parse(r['args'], r['ini_text'])
        print('error:', err)
        if o is not None:
            print({k: canon(v) for k, v in list(o.__dict__.items()) if k not in ('next', '_autoinit')}, 'argv', argv)
            print('ini layer', {k: canon(v) for k, v in o.next.__dict__.items() if k not in ('next', '_autoinit')})
        print('compare with: ' + d['what'])
        return 1
    if r.get('kind') == 'store':
        print(d['what'])
        import datetime as _dt
        return core.replay_family('C20', d['key'], lambda run: store_family(run, None, core.rng_for(0, 'c20-replay'), _dt.datetime.now().strftime('%Y-%m-%d'), True))
    print(d['what'])
    return 1
