"""C12 - a worker asked to stop exits without leaving locks or partial results"""
import os
import random
import threading

from jugverif import core, execchecks as X, execengine as E, lib, sched

LEVEL = 'proof'
THEOREMS = ['Jug.C12.continuation_completes', 'Jug.C12.stop_leaves_no_lock', 'Jug.C12.stop_always_enabled', 'Jug.C12.stop_changes_nothing_shared', 'Jug.C12.stopping_only_unlocks_and_exits',
            'Jug.C12.cannot_exit_holding', 'Jug.C12.interrupted_task_has_no_result', 'Jug.C12.state_after_stop_is_regular', 'Jug.LoopBridge.continuation_completes_of_loop_workers']


def extract():
    """registration of the exit conditions: which hook each stop mechanism uses (JUG_MAX_TASKS, time limit, stop file) and the SIGTERM handler"""
    import ast
    import inspect
    import jug.hooks.exit_checks as ec
    import jug.subcommands.execute as ex
    rows = []
    for fn in ('exit_if_file_exists', 'exit_when_true', 'exit_after_n_tasks', 'exit_after_time'):
        src = inspect.getsource(getattr(ec, fn))
        tree = ast.parse(src)
        hooks = [n.args[0].value for n in ast.walk(tree) if isinstance(n, ast.Call) and getattr(n.func, 'attr', '') == 'register_hook' and n.args and isinstance(n.args[0], ast.Constant)]
        rows.append((fn, hooks))
    src = inspect.getsource(ex.ExecuteCommand.run)
    installs_sigterm = 'signal(SIGTERM, _sigterm)' in src.replace(' ', '').replace('signal(SIGTERM,_sigterm)', 'signal(SIGTERM, _sigterm)')
    # position: the handler must be installed unconditionally (not nested under an `if`)
    tree = ast.parse(inspect.getsource(ex.ExecuteCommand.run).lstrip())
    uncond = False
    for node in tree.body[0].body:
        if isinstance(node, ast.Expr) and isinstance(node.value, ast.Call) and getattr(node.value.func, 'id', '') == 'signal':
            uncond = True
    sig_src = inspect.getsource(ex._sigterm)
    raises_systemexit = 'sys.exit(' in sig_src or 'raise SystemExit' in sig_src
    txt = 'namespace Jug.Generated.Stop\n'
    txt += '/-- (exit check, hooks it registers on) as found in jug/hooks/exit_checks.py -/\n'
    txt += 'def exitHooks : List (String × List String) := [%s]\n' % ', '.join('("%s", [%s])' % (f, ', '.join('"%s"' % h for h in hs)) for f, hs in rows)
    txt += 'def sigtermInstalledUnconditionally : Bool := %s\n' % ('true' if uncond else 'false')
    txt += 'def sigtermRaisesSystemExit : Bool := %s\n' % ('true' if raises_systemexit else 'false')
    txt += 'end Jug.Generated.Stop\n'
    core.write_generated('StopTable', txt)


def run_one(run, drv, P, scratch, params):
    kind = params['stop']['kind']
    if kind in ('sysexit', 'kbdint'):
        params = dict(params, faults={str(params['stop']['k']): [kind, 1]})
    sleep_patch = None
    if kind == 'sleep':
        # SIGTERM / Ctrl-C while the worker sleeps in its wait loop: raised from inside time.sleep for the chosen worker
        import time
        real_sleep = time.sleep
        target = params['stop']['worker']
        state = {'n': params['stop'].get('nth', 1)}

        def sleeper(s):
            if getattr(lib.TL, 'w', None) == target:
                state['n'] -= 1
                if state['n'] == 0:
                    S = sched.CURRENT
                    S.gate(target, ('stop-in-sleep', -1))
                    if params['stop'].get('exc', 'sysexit') == 'sysexit':
                        S.record(('stop', target, 'sysExit', 1))
                        raise SystemExit(1)
                    S.record(('stop', target, 'kbdInt'))
                    raise KeyboardInterrupt()
            return None
        time.sleep = sleeper
        sleep_patch = (time, real_sleep)
    try:
        c = X.run_params(P, scratch, params, X.newtag())
    finally:
        if sleep_patch:
            sleep_patch[0].sleep = sleep_patch[1]
    stopped = {w for w, r in c.results.items() if r[0] in ('SystemExit', 'KeyboardInterrupt')}
    c.stopped = stopped
    # 1. no lock is left (nobody crashed, nobody failed): every lock must be gone once all workers have ended
    if c.locks:
        X.fail_case(run, 'lock-left-after-stop', 'workers ended with %s and locks %s were left behind' % (c.results, c.locks), P, params)
    # 2. no partial / wrong result; interrupted task has no result unless somebody completed it normally
    completed = {e[2] for e in c.trace if e[0] == 'endOk'}
    for t in sorted(set(c.final) - completed - set(c.res0)):
        X.fail_case(run, 'result-without-completion', 'task %d has a stored result although no execution of it returned normally' % t, P, params)
    X.check_values_complete(run, P, c, params, expect_complete=False)
    # 3. exit status as raised
    for w, r in c.results.items():
        stops = [e for e in c.trace if e[0] == 'stop' and e[1] == w]
        if stops:
            exp = ('KeyboardInterrupt',) if stops[0][2] == 'kbdInt' else ('SystemExit', stops[0][3])
            if r != exp:
                X.fail_case(run, 'stop-swallowed', 'worker %d was asked to stop (%s) but ended with %s' % (w, stops[0][2:], r), P, params)
    if kind == 'sleep' and not stopped and any(True for _ in [0]):
        run.count('sleep_stop_not_reached')
    X.model_check(run, drv, P, c, 'run with a stop request', params)
    # 4. any other / later worker finishes the computation with correct values
    trace2, results2, _ = X.second_execute(P, c.backend, 1 + params['sched_seed'] % 2, random.Random(params['sched_seed'] + 3), P['index'])
    final2, locks2 = X.final_state(P, c.backend)
    if len(final2) != P['n'] or locks2 or any(final2[i] != P['info'][i]['value'] for i in final2):
        X.fail_case(run, 'continuation-incomplete', 'after the stop a later worker could not complete the computation: %d of %d stored, locks %s, results %s' % (len(final2), P['n'], locks2, results2), P, params)
    redone = {e[2] for e in trace2 if e[0] == 'begin'} & set(c.final)
    if redone:
        X.fail_case(run, 'continuation-reruns-finished', 'the later worker re-executed finished tasks %s' % sorted(redone), P, params)
    return c


def check(run):
    quick = run.tier == 'quick'
    run.rule = ('generated jugfiles x stop mechanisms: SystemExit (what the SIGTERM handler raises) and KeyboardInterrupt raised inside every library task function in turn, raised inside '
                'time.sleep of the wait loop, and the task-count limit (exit(0) from the task-executed1 hook) x flags (--keep-going/--keep-failed/aggressive unloading) x 1-3 gated workers x '
                'backends (dict, file, redis protocol); monitors: no lock left, no result without a normally completed execution, exit as raised, a later worker completes everything '
                'with correct values and re-runs nothing finished; histories replayed through the Lean model; thorough tier adds real processes with real SIGTERM/SIGINT; '
                'non-trivial = the stop hit a worker holding a lock; distinct by (program, params)')
    extract()
    drv = X.setup(run, THEOREMS + ['Jug.C12.stop_mechanisms_use_known_hooks'])
    X.loop_correspondence(run, drv)
    from jugverif import loopcheck
    loopcheck.stop_injection_family(run, drv, core.rng_for(run.seed, 'c12-loop-stop'), 60 if run.tier == 'quick' else 600)
    rng = core.rng_for(run.seed, 'c12')
    scratch = core.scratch_dir()
    try:
        nprog = 10 if quick else 80
        for pi in range(nprog):
            P = E.prepare(rng, scratch, rng.choice([5, 8, 12]) if quick else rng.choice([5, 8, 12, 20]))
            ks = sorted(P['ks'].values())
            cases = []
            for k in (ks if not quick else rng.sample(ks, min(4, len(ks)))):
                nw = rng.choice([1, 2, 3])
                cases.append({'backend': rng.choice(['dict', 'file', 'redis']), 'nworkers': nw, 'sched_seed': rng.randrange(10 ** 9),
                              'flags': {w: [rng.random() < 0.5, rng.random() < 0.5, rng.random() < 0.3] for w in range(nw)},
                              'stop': {'kind': rng.choice(['sysexit', 'kbdint']), 'k': k}})
            for _ in range(2):
                cases.append({'backend': rng.choice(['file', 'redis']), 'nworkers': 2, 'sched_seed': rng.randrange(10 ** 9),
                              'stop': {'kind': 'sleep', 'worker': 1, 'nth': rng.randint(1, 3), 'exc': rng.choice(['sysexit', 'kbdint'])}, 'policy': ['hold', 0, rng.randrange(P['n']), 120]})
            cases.append({'backend': rng.choice(['file', 'redis', 'dict']), 'nworkers': 2, 'sched_seed': rng.randrange(10 ** 9), 'stop': {'kind': 'maxtasks'}, 'max_tasks': {0: rng.randint(1, 3)}})
            for params in cases:
                c = run_one(run, drv, P, scratch, params)
                holding = any(e[0] == 'stop' for e in c.trace) and any(e[0] == 'unlock' for e in c.trace)
                run.case((pi, str(sorted(params.items())), run.seed), nontrivial=bool(c.stopped) and holding)
                run.count('stop_' + params['stop']['kind'])
                run.count('workers_stopped', len(c.stopped))
                if len(run.samples) < 2 and c.stopped:
                    i = next(k for k, e in enumerate(c.trace) if e[0] == 'stop')
                    run.sample({'params': params, 'events_around_stop': E.to_model_events(c.trace[max(0, i - 5):i + 4]), 'results': {str(k): list(v) for k, v in c.results.items()}})
            core.rm_rf(scratch)
            os.makedirs(scratch, exist_ok=True)
        process_mode(run, rng, 3 if quick else 18)
        if drv is not None and run.corr_disagreements == 0:
            run.obligation('trace validation: %d real histories with stop requests (%d events) accepted by the Lean model' % (run.counts.get('traces_validated', 0), run.counts.get('trace_events_validated', 0)), True)
    finally:
        core.rm_rf(scratch)
        if drv is not None:
            drv.close()


def process_mode(run, rng, n):
    from jugverif import procmode
    procmode.stop_family(run, rng, n=n)
    procmode.exit_condition_family(run, ['stop-file-default', 'stop-file-env', 'stop-file-default-with-env', 'max-tasks', 'max-time', 'max-tasks+barrier', 'stop-file-default+barrier'])


def replay(path):
    import json
    d = json.load(open(path))
    if d['replay'].get('kind') == 'process-exit-condition':
        from jugverif import procmode
        print(d['what'])
        return core.replay_family('C12', d['key'], lambda run: procmode.exit_condition_family(run, [d['replay']['condition']]))
    if d['replay'].get('kind') == 'process':
        import signal
        from jugverif import procmode
        p = d['replay']['params']
        obs = procmode.signal_case(p.get('n', 4), p['k'], signal.Signals(p['sig']), p.get('args', []), repeat=p.get('repeat', False), barrier=p.get('barrier', False), broken_stdio=p.get('broken_stdio', False), in_syscall=p.get('in_syscall', False))
        run = core.Run('C12', 'quick')
        procmode.judge_stop(run, obs, p)
        print({k: v for k, v in obs.items() if k not in ('calls', 'calls_before')})
        for f in run.failures:
            print('FAILS:', f['what'])
        print('property FAILS on this input' if run.failures else 'property holds on this input')
        return 1 if run.failures else 0
    return X.replay(path, 'C12')
