"""C08 - different task invocations never share an identifier"""
import copy
import itertools
import json
import random

from jugverif import core

LEVEL = 'proof'
THEOREMS = ['Jug.C08.ser_not_injective', 'Jug.C08.taskId_not_injective', 'Jug.C08.ser_inj', 'Jug.C08.ser_injective_partial',
            'Jug.C08.taskId_injective_partial']


def norm(s):
    return json.loads(json.dumps(s))


def paths(spec, prefix=()):
    """all positions of sub-specs"""
    yield prefix, spec
    k = spec[0]
    if k in ('list', 'tuple', 'set', 'fset'):
        for i, x in enumerate(spec[1]):
            yield from paths(x, prefix + (1, i))
    elif k == 'dict':
        for i, (kk, vv) in enumerate(spec[1]):
            yield from paths(vv, prefix + (1, i, 1))
    elif k == 'task':
        for i, x in enumerate(spec[2]):
            yield from paths(x, prefix + (2, i))
        for i, (kk, vv) in enumerate(spec[3]):
            yield from paths(vv, prefix + (3, i, 1))
    elif k == 'tasklet':
        yield from paths(spec[1], prefix + (1,))


def get_at(spec, path):
    for p in path:
        spec = spec[p]
    return spec


def set_at(spec, path, new):
    spec = copy.deepcopy(spec)
    if not path:
        return new
    cur = spec
    for p in path[:-1]:
        cur = cur[p]
    cur[path[-1]] = new
    return spec


ATOM_ALTS = {'int': [['int', 7], ['bool', True], ['float', '0x1.0p+0'], ['str', '1'], ['bytes', '31'], ['npscalar', 'int64', 1]],
             'str': [['str', 'zz'], ['bytes', '7a7a'], ['list', [['str', 'z'], ['str', 'z']]]],
             'none': [['bool', False], ['int', 0], ['str', 'None'], ['tuple', []], ['list', []]],
             'bool': [['int', 1], ['int', 0], ['str', 'True']]}


def mutations(rng, spec):
    """yield (label, other_spec): structurally different invocations derived from a task spec"""
    assert spec[0] == 'task'
    ps = list(paths(spec))
    # function name
    yield 'name', [spec[0], 'g' if spec[1] != 'g' else 'f', spec[2], spec[3]]
    # positional <-> keyword
    if spec[2]:
        used = {k for k, _ in spec[3]}
        kw = next(k for k in ['a', 'b', 'key', 'zz', 'q'] if k not in used)
        yield 'pos->kw', [spec[0], spec[1], spec[2][:-1], spec[3] + [[kw, spec[2][-1]]]]
        if len(spec[2]) >= 2 and json.dumps(spec[2][0]) != json.dumps(spec[2][1]):
            yield 'swap-args', [spec[0], spec[1], [spec[2][1], spec[2][0]] + spec[2][2:], spec[3]]
        yield 'drop-arg', [spec[0], spec[1], spec[2][:-1], spec[3]]
        yield 'wrap-args-in-tuple', [spec[0], spec[1], [['tuple', spec[2]]], spec[3]]
    if spec[3]:
        k0, v0 = spec[3][0]
        yield 'rename-kw', [spec[0], spec[1], spec[2], [[k0 + 'x', v0]] + spec[3][1:]]
        if len(spec[3]) >= 2 and json.dumps(spec[3][0][1]) != json.dumps(spec[3][1][1]):
            yield 'swap-kw-values', [spec[0], spec[1], spec[2], [[spec[3][0][0], spec[3][1][1]], [spec[3][1][0], spec[3][0][1]]] + spec[3][2:]]
    rng.shuffle(ps)
    n = 0
    for path, sub in ps:
        if not path:
            continue
        k = sub[0]
        if k in ('list', 'tuple'):
            yield 'list<->tuple', set_at(spec, path, ['tuple' if k == 'list' else 'list', sub[1]])
            if sub[1]:
                yield 'container->set', set_at(spec, path, ['list', [sub, ['int', 0]]])
            # element moved across the container boundary (the K1 family)
            parent = get_at(spec, path[:-2]) if len(path) >= 2 else None
            if parent is not None and ((parent[0] in ('list', 'tuple') and path[-2] == 1) or (parent[0] == 'task' and path[-2] == 2)):
                sibs = parent[1] if parent[0] != 'task' else parent[2]
                i = path[-1]
                if i + 1 < len(sibs):
                    nxt = sibs[i + 1]
                    new_sibs = sibs[:i] + [[k, sub[1] + [nxt]]] + sibs[i + 2:]
                    yield 'move-into-container', set_at(spec, path[:-1], new_sibs)
            if sub[1]:
                yield 'unnest', set_at(spec, path, sub[1][0]) if json.dumps(sub[1][0]) != json.dumps(sub) else None
                yield 'nest', set_at(spec, path, [k, [sub]])
        elif k in ('set', 'fset'):
            yield 'set<->fset', set_at(spec, path, ['fset' if k == 'set' else 'set', sub[1]])
            yield 'set->list', set_at(spec, path, ['list', sub[1]])
        elif k == 'dict':
            if sub[1]:
                kk, vv = sub[1][0]
                yield 'dict-value', set_at(spec, path, ['dict', [[kk, ['tuple', [vv]]]] + sub[1][1:]])
                yield 'dict->items', set_at(spec, path, ['list', [['tuple', [a, b]] for a, b in sub[1]]])
                if vv[0] == 'dict' and len(sub[1]) >= 2:
                    # inner dict swallows the next entry (nested-dict variant of K1)
                    yield 'move-into-dict', set_at(spec, path, ['dict', [[kk, ['dict', vv[1] + [sub[1][1]]]]] + sub[1][2:]])
        elif k == 'nd':
            _, dt, shape, vals = sub
            if len(shape) >= 2 and len(vals) >= 2:
                import numpy as _np
                tv = [int(x) for x in _np.array(vals).reshape(shape).T.flatten()]
                if tv != vals or list(reversed(shape)) != shape:
                    yield 'transpose', set_at(spec, path, ['nd', dt, list(reversed(shape)), tv])
            if len(vals) >= 2:
                yield 'reshape', set_at(spec, path, ['nd', dt, [len(vals)] if len(shape) != 1 else [1, len(vals)], vals])
            if dt in ('i8', '<i4', 'u1', 'i2') and vals:
                yield 'retype', set_at(spec, path, ['nd', 'f8' if dt != 'f8' else 'i8', shape, vals])
                yield 'array-value', set_at(spec, path, ['nd', dt, shape, [vals[0] + 1] + vals[1:]])
                yield 'array->list', set_at(spec, path, ['list', [['int', v] for v in vals]]) if len(shape) == 1 else None
        elif k == 'tasklet':
            idx = sub[2]
            if idx[0] == 'int':
                yield 'index', set_at(spec, path, ['tasklet', sub[1], ['int', idx[1] + 1]])
                yield 'index-type', set_at(spec, path, ['tasklet', sub[1], ['str', str(idx[1])]])
            if idx[0] == 'lambda':
                yield 'lambda-code', set_at(spec, path, ['tasklet', sub[1], ['lambda', 3 - idx[1]]])
            yield 'tasklet->base', set_at(spec, path, sub[1])
        elif k in ATOM_ALTS:
            for alt in ATOM_ALTS[k]:
                if json.dumps(alt) != json.dumps(sub):
                    yield 'atom:%s->%s' % (k, alt[0]), set_at(spec, path, alt)
        elif k == 'mapped':
            yield 'map-len', set_at(spec, path, ['mapped', sub[1] + 1, sub[2]])
            yield 'map-step', set_at(spec, path, ['mapped', sub[1], sub[2] + 1])
        n += 1
        if n > 12:
            break


class Layout:
    """stands in for the order rng of hashmodel.build: fixed memory layout for every array, insertion order as written"""

    def __init__(self, code):
        self.code = code

    def shuffle(self, items):
        pass

    def randint(self, a, b):
        return self.code


def ids(drv, enc, spec, layout=None):
    import jug.task
    from jugverif import hashmodel as hm
    t = hm.build(spec, None if layout is None else Layout(layout))
    m = hm.to_model(t)
    real = t.hash().decode()
    ans = drv.ask({'op': 'hash', 'enc': enc, 'v': m}) if drv is not None else {}
    del jug.task.alltasks[:]
    return real, ans.get('id')


def small_universe():
    """all argument tuples (as task specs) built from atoms {1, 2} with lists/tuples, up to 3 atoms and depth 2"""
    atoms = [['int', 1], ['int', 2]]

    def vals(size, depth):
        if size == 1:
            for a in atoms:
                yield a
        if depth > 0:
            for parts in seqs(size, depth - 1):
                yield ['list', parts]
                yield ['tuple', parts]

    def seqs(size, depth):
        # ordered partitions of `size` into element sizes
        if size == 0:
            yield []
            return
        for first in range(1, size + 1):
            for v in vals(first, depth):
                for rest in seqs(size - first, depth):
                    yield [v] + rest
    out = []
    for size in (1, 2, 3):
        for args in seqs(size, 2):
            out.append(['task', 'f', args, []])
    return out


def check(run):
    import warnings
    warnings.simplefilter('ignore')
    import jug.task
    from jug.backends.dict_store import dict_store
    from jugverif import hashmodel as hm
    jug.task.Task.store = dict_store()
    quick = run.tier == 'quick'
    run.rule = ('pairs of structurally different task invocations: (a) exhaustively all argument tuples over atoms {1,2} with lists/tuples up to 3 atoms and '
                'nesting depth 2, all pairs; (b) random task specs over the C07 universe x mutation operators (name, positional<->keyword, swapped/renamed keywords, '
                'list<->tuple, element moved across a container boundary, nest/unnest, set<->frozenset, dict nesting, reshape/retype arrays, index i vs j, lambda body, '
                'atom type changes 1/True/1.0/"1"/b"1"); a real collision is a known finding only if the Lean model of the scheme predicts it (K1) or it is the lambda '
                'co_code case (K2); non-trivial = the two invocations are different values of the same function; distinct by the pair')
    run.assumptions = ['SHA-1 collision free (theorems: EncOK.sha_inj)', 'pickle.dumps injective on leaf values and label kinds disjoint (EncOK), validated by the correspondence model id = real id',
                       'arguments wrapped in CustomHash/NoHash are exempt (Safe excludes custom)']
    run.trusted = ['Lean 4.33.0 kernel', 'axioms propext, Classical.choice, Quot.sound', 'harness/jugverif/hashmodel.py', 'Lean SHA-1 of the driver']
    run.lean(['JugModel.Props.C08', 'jugdrv'], theorems_expected=THEOREMS)
    drv = core.Driver() if run.driver_ok else None
    enc = hm.enc_table()
    rng = core.rng_for(run.seed, 'c08')
    stats = {}

    def judge(label, s1, s2, layouts=(None, None)):
        if label == 'transpose' and layouts == (None, None):
            # the memory layout of an array must not matter: try the layouts under which a transposed array has the same bytes
            for lay in ((0, 1), (1, 0), (4, 0), (0, 4), (1, 1)):
                judge(label, s1, s2, lay)
            return
        try:
            r1, m1 = ids(drv, enc, s1, layouts[0])
            r2, m2 = ids(drv, enc, s2, layouts[1])
        except Exception as e:
            run.count('build_errors')
            return
        run.case(json.dumps([s1, s2]), nontrivial=True)
        stats[label] = stats.get(label, 0) + 1
        if drv is not None:
            run.corr_programs += 2
            if m1 != r1 or m2 != r2:
                run.corr_disagreements += 1
                run.obligation('correspondence model identifier = real identifier', False, 'model %s/%s real %s/%s for %s' % (m1, m2, r1, r2, json.dumps([s1, s2])[:300]))
        if r1 == r2:
            rp = {'kind': 'pair', 'a': s1, 'b': s2, 'mutation': label, 'layouts': list(layouts)}
            if label == 'lambda-code':
                run.fail('K2:lambda-co_code', 'lambda tasklets with different bodies share an identifier: %s' % json.dumps([s1, s2])[:300], rp)
            elif m1 is not None and m1 == m2:
                run.fail('K1:model-predicted-collision', 'different invocations share identifier %s (mutation %s; the model of the scheme predicts it: undelimited nested container): %s'
                         % (r1, label, json.dumps([s1[2:], s2[2:]])[:300]), rp)
            else:
                run.fail('collision:' + label, 'different invocations share identifier %s (mutation %s), NOT predicted by the model of the scheme: %s' % (r1, label, json.dumps([s1, s2])[:400]), rp)
            run.count('collisions')
        if len(run.samples) < 4 and label in ('move-into-container', 'pos->kw', 'reshape', 'index'):
            run.sample({'mutation': label, 'a': s1, 'b': s2, 'ids': [r1, r2]})

    # (a) exhaustive small scope
    uni = small_universe()
    run.counts['small_universe_invocations'] = len(uni)
    idmap = {}
    for s in uni:
        r, m = ids(drv, enc, s)
        if drv is not None:
            run.corr_programs += 1
            if r != m:
                run.corr_disagreements += 1
                run.obligation('correspondence model identifier = real identifier', False, 'model %s real %s for %s' % (m, r, json.dumps(s)))
        idmap.setdefault(r, []).append((s, m))
        run.case(json.dumps(s), nontrivial=True)
    ncoll = 0
    for r, group in idmap.items():
        if len(group) > 1:
            for (s1, m1), (s2, m2) in itertools.combinations(group, 2):
                ncoll += 1
                rp = {'kind': 'pair', 'a': s1, 'b': s2, 'mutation': 'exhaustive'}
                if m1 is not None and m1 == m2:
                    run.fail('K1:model-predicted-collision', 'different invocations share identifier %s (undelimited nested container): f%s / f%s' % (r, json.dumps(s1[2]), json.dumps(s2[2])), rp)
                else:
                    run.fail('collision:exhaustive', 'different invocations share identifier %s, NOT predicted by the model: %s' % (r, json.dumps([s1, s2])), rp)
    run.counts['small_universe_colliding_pairs'] = ncoll
    run.counts['small_universe_pairs'] = len(uni) * (len(uni) - 1) // 2
    # the canonical witnesses
    judge('move-into-container', norm(('task', 'f', [('list', [('int', 1)]), ('int', 2)], [])), norm(('task', 'f', [('list', [('int', 1), ('int', 2)])], [])))
    judge('lambda-code', norm(('task', 'f', [('tasklet', ('task', 'g', [], []), ('lambda', 1))], [])), norm(('task', 'f', [('tasklet', ('task', 'g', [], []), ('lambda', 2))], [])))
    # arrays and their transposes in every memory layout
    for dt in ('i8', 'f4', '>i4', 'M8[s]', 'u1'):
        for shape in ([2, 2], [3, 3], [2, 3], [2, 2, 2], [1, 4], [4, 4]):
            nvals = 1
            for d in shape:
                nvals *= d
            vals = [(7 * i + 3) % 11 for i in range(nvals)]
            a = ['nd', dt, shape, vals]
            import numpy as _np
            tv = [int(x) for x in _np.array(vals).reshape(shape).T.flatten()]
            b = ['nd', dt, list(reversed(shape)), tv]
            if a != b:
                judge('transpose', norm(('task', 'f', [a], [])), norm(('task', 'f', [b], [])))
    # views of views whose identifiers are computed while the objects are being built / afterwards: different operands, different identifiers
    from jugverif import hashhist
    hashhist.order_family(run, 'C08')
    # arrays of a subclass (matrix, masked array, record array) against the plain array over the same bytes, and masked arrays that differ only in the
    # mask: different values (type / mask are part of the value), also nested in containers
    import numpy as _np
    import warnings as _w
    from jug import Task as _Task
    from jug.hash import hash_one as _h1
    from jugverif import hashmodel as _hm
    with _w.catch_warnings():
        _w.simplefilter('ignore')
        _rdt = [('a', '<i4'), ('b', '<f8')]
        sub_pairs = [
            ('np.matrix vs ndarray', _np.matrix([[1, 2], [3, 4]]), _np.array([[1, 2], [3, 4]])),
            ('masked arrays differing in the mask', _np.ma.array([1, 2, 3], mask=[0, 1, 0]), _np.ma.array([1, 2, 3], mask=[0, 0, 1])),
            ('masked array vs ndarray', _np.ma.array([1, 2, 3], mask=[0, 1, 0]), _np.array([1, 2, 3])),
            ('unmasked masked array vs ndarray', _np.ma.array([1.5, 2.5]), _np.array([1.5, 2.5])),
            ('recarray vs structured ndarray', _np.rec.array([(1, 2.0), (3, 4.0)], dtype=_rdt), _np.array([(1, 2.0), (3, 4.0)], dtype=_rdt)),
            ('2-d masked arrays differing in one mask bit', _np.ma.array([[1, 2], [3, 4]], mask=[[0, 0], [0, 1]]), _np.ma.array([[1, 2], [3, 4]], mask=[[0, 0], [1, 0]])),
        ]
    for label, a_, b_ in sub_pairs:
        for wrapname, wrap in (('top', lambda x: x), ('in-list', lambda x: [x, 1]), ('in-dict', lambda x: {'k': x}), ('in-tuple-in-list', lambda x: [(0, x)])):
            run.case(('subclass-pair', label, wrapname), nontrivial=True)
            run.count('array_subclass_pairs')
            try:
                ha, hb = _Task(_hm.f, wrap(a_)).hash(), _Task(_hm.f, wrap(b_)).hash()
            except Exception as e:
                run.fail('hash-raises', 'hashing a task over %s (%s) raised %s: %s' % (label, wrapname, type(e).__name__, e), {'kind': 'subclass-pair', 'label': label, 'wrap': wrapname})
                continue
            if ha == hb:
                run.fail('collision:array-subclass', 'f(%s) with the argument %s: %r and %r are different values (type %s vs %s) but the two invocations share the identifier %s'
                         % (wrapname, label, a_, b_, type(a_).__name__, type(b_).__name__, ha[:16]), {'kind': 'subclass-pair', 'label': label, 'wrap': wrapname})
    # a value changed in place between two invocations (same object, other content): different invocations. Large arrays (above any size at which a digest might be
    # remembered per object), small arrays, lists, dicts, bytearrays
    def _mut_cases():
        big = _np.zeros(300000)
        small = _np.arange(10)
        lst = [1, 2, [3, 4]]
        dct = {'a': [1], 'b': 2}
        ba = bytearray(b'abcdef')
        nested = {'k': [_np.zeros(200000), 1]}
        return [('ndarray of 2.4 MB', big, lambda: big.__setitem__(12345, 1.0)), ('small ndarray', small, lambda: small.__setitem__(3, 99)),
                ('list', lst, lambda: lst[2].append(5)), ('dict', dct, lambda: dct['a'].append(2)), ('bytearray', ba, lambda: ba.__setitem__(0, 120)),
                ('array inside containers', nested, lambda: nested['k'][0].__setitem__(7, 3.0))]
    for label, obj, mutate in _mut_cases():
        run.case(('mutate-between', label), nontrivial=True)
        run.count('in_place_mutation_cases')
        try:
            h1 = _Task(_hm.f, obj, key=[obj]).hash()
            _h1(obj)
            mutate()
            h2 = _Task(_hm.f, obj, key=[obj]).hash()
            import copy as _copy
            h3 = _Task(_hm.f, _copy.deepcopy(obj), key=[_copy.deepcopy(obj)]).hash()
        except Exception as e:
            run.fail('hash-raises', 'hashing a task over a %s raised %s: %s' % (label, type(e).__name__, e), {'kind': 'mutate-between', 'label': label})
            continue
        if h1 == h2:
            run.fail('collision:mutated-argument', 'f(x) was created (and its identifier computed) for a %s x; then x was changed in place and f(x) created again: the two invocations have different '
                     'arguments but share the identifier %s' % (label, h1[:16]), {'kind': 'mutate-between', 'label': label})
        elif h2 != h3:
            run.fail('identifier-depends-on-history', 'f(x) for a %s x that was changed in place after an earlier hashing has the identifier %s; an equal fresh copy gives %s' % (label, h2[:16], h3[:16]),
                     {'kind': 'mutate-between', 'label': label})
    # keyword arguments against trailing positional (name, value) tuples, and against a trailing dict
    kw_pairs = [((1,), {'k': 2}, (1, ('k', 2)), {}), ((1,), {'k': 2}, (1, [('k', 2)]), {}), ((1,), {'k': 2}, (1, {'k': 2}), {}), ((), {'a': 1, 'b': 2}, (('a', 1), ('b', 2)), {}),
                ((1,), {'k': [2, 3]}, (1, ('k', [2, 3])), {}), ((), {'args': (1, 2)}, (1, 2), {}), ((('kwargs', 3),), {}, (), {'kwargs': 3})]
    for a1, k1, a2, k2 in kw_pairs:
        run.case(('kw-vs-tuple', repr((a1, k1, a2, k2))), nontrivial=True)
        run.count('keyword_vs_positional_pairs')
        ha, hb = _Task(_hm.f, *a1, **k1).hash(), _Task(_hm.f, *a2, **k2).hash()
        if ha == hb:
            run.fail('collision:keyword-vs-positional', 'f(*%r, **%r) and f(*%r, **%r) are different invocations but share the identifier %s' % (a1, k1, a2, k2, ha[:16]),
                     {'kind': 'kw-vs-tuple', 'pair': repr((a1, k1, a2, k2))})
    import jug.task as _jt
    del _jt.alltasks[:]
    # functions of the same name in different modules are different functions (plain tasks, tasklets, and every way map/mapreduce/
    # currymap/reduce embed their mapper and reducer, plain or wrapped by TaskGenerator)
    import jug.task
    from jug import Task, TaskGenerator
    from jug.task import Tasklet
    from jug.mapreduce import map as jmap, mapreduce as jmr, currymap as jcm, reduce as jred
    from jugverif import hashfuncs2 as h2m

    def all_ids(build):
        del jug.task.alltasks[:]
        top = build()
        out = sorted(t.hash().decode() for t in jug.task.alltasks)
        extra = []
        if isinstance(top, Tasklet):
            # only the consumer of the tasklet (its base task is, rightly, the same invocation in both builds)
            out = [Task(hm.f, top).hash().decode()]
        del jug.task.alltasks[:]
        return set(out)
    fam = [
        ('Task(f, 1)', lambda m: Task(m.f, 1)),
        ('Tasklet(t, op)', lambda m: Tasklet(Task(hm.g, 1), m.op)),
        ('map(plain mapper)', lambda m: jmap(m._m21, list(range(7)), map_step=3)),
        ('map(TaskGenerator mapper)', lambda m: jmap(TaskGenerator(m.tgm), list(range(7)), map_step=3)),
        ('map(TaskGenerator mapper, map_step=1)', lambda m: jmap(TaskGenerator(m.tgm), list(range(3)), map_step=1)),
        ('currymap(TaskGenerator mapper)', lambda m: jcm(TaskGenerator(m.tgm), [(j,) for j in range(5)], map_step=2)),
        ('mapreduce(plain reducer, TaskGenerator mapper)', lambda m: jmr(hm._m21, TaskGenerator(m.tgm), list(range(9)), map_step=2, reduce_step=3)),
        ('mapreduce(TaskGenerator reducer, plain mapper)', lambda m: jmr(TaskGenerator(m.tgm), hm._m21, list(range(9)), map_step=2, reduce_step=3)),
        ('reduce(TaskGenerator reducer)', lambda m: jred(TaskGenerator(m.tgm), list(range(9)), reduce_step=3)),
    ]
    for label, build in fam:
        try:
            a_ids, b_ids = all_ids(lambda: build(hm)), all_ids(lambda: build(h2m))
        except Exception as e:
            run.count('build_errors')
            continue
        run.case(('same-name-other-module', label), nontrivial=True)
        stats['same-name-other-module'] = stats.get('same-name-other-module', 0) + 1
        shared = a_ids & b_ids
        if shared:
            run.fail('collision:same-name-other-module', '%s built with functions of the same name from two different modules (jugverif.hashmodel / jugverif.hashfuncs2): %d of the %d task identifiers are shared, '
                     'e.g. %s - the two computations would take each other\'s results' % (label, len(shared), len(a_ids), sorted(shared)[0]), {'kind': 'same-name-other-module', 'what': label})
    # consumers of different elements / views of one task are different invocations (return_tuple, iteratetask, items, slices, nested)
    from jug.task import return_tuple, iteratetask
    del jug.task.alltasks[:]
    base3 = return_tuple(3)(TaskGenerator(hm.f))(1, 2)
    plain = Task(hm.g, 5)
    views = [('return_tuple element %d' % j, v) for j, v in enumerate(base3)] + [('iteratetask element %d' % j, v) for j, v in enumerate(iteratetask(plain, 3))] + \
            [('t[%d]' % j, plain[j]) for j in range(3)] + [('t[0:2]', plain[0:2]), ('t[1:3]', plain[1:3]), ('t[0][1]', plain[0][1]), ('t[1][1]', plain[1][1]), ('t[0][0]', plain[0][0])]
    cons = {}
    for label, v in views:
        hid = Task(hm.h2, v).hash().decode()
        run.case(('distinct-views', label), nontrivial=True)
        if hid in cons and not (label.startswith('t[') and cons[hid].startswith('iteratetask element') and label[2] == cons[hid][-1] and len(label) == 4):
            run.fail('collision:views-of-one-task', 'h2(%s) and h2(%s) share the identifier %s: consumers of different elements of the same task are taken for one another' % (cons[hid], label, hid),
                     {'kind': 'distinct-views', 'a': cons[hid], 'b': label})
        cons.setdefault(hid, label)
    stats['distinct-views'] = len(views)
    del jug.task.alltasks[:]
    # views of a mapped sequence that select different elements (or the same ones in another order) are different operands
    import itertools as _it
    for n_, step_ in ((5, 2), (8, 3), (3, 4)):
        ms = jmap(hm._m21, list(range(n_)), map_step=step_)
        seen = {}
        bounds = [None] + list(range(-n_ - 1, n_ + 2))
        cand = [('xs', ms, tuple(range(n_)))]
        for a_, b_, c_ in _it.product(bounds, bounds, (None, -3, -2, -1, 1, 2, 3)):
            sl = slice(a_, b_, c_)
            sel = tuple(range(n_)[sl])
            cand.append(('xs[%s:%s:%s]' % (a_, b_, c_), ms[sl], sel))
            if a_ in (None, 1) and b_ in (None, n_ - 1) and len(sel) > 1:
                for c2 in (-1, 2, -2):
                    cand.append(('xs[%s:%s:%s][::%d]' % (a_, b_, c_, c2), ms[sl][::c2], sel[::c2]))
        for label, v, sel in cand:
            hid = Task(hm.h2, v).hash().decode()
            run.count('mapped_view_cases')
            if hid in seen and seen[hid][1] != sel:
                run.case(('mapped-views', n_, step_, label), nontrivial=True)
                run.fail('collision:views-of-a-mapped-sequence', 'with xs = map(f, range(%d), map_step=%d): h2(%s) (elements %s) and h2(%s) (elements %s) share the identifier %s'
                         % (n_, step_, seen[hid][0], list(seen[hid][1]), label, list(sel), hid), {'kind': 'mapped-views', 'n': n_, 'step': step_, 'a': seen[hid][0], 'b': label})
                break
            seen.setdefault(hid, (label, sel))
        run.case(('mapped-views', n_, step_), nontrivial=True)
        del jug.task.alltasks[:]
    stats['mapped-views'] = run.counts.get('mapped_view_cases', 0)
    # record arrays over the same bytes whose dtypes differ in a field's name, type, order or nesting (same item size, same shape)
    import numpy as _np
    buf = bytes(range(48))
    rdts = [[('id', '<i4'), ('weight', '<i4')], [('id', '<i4'), ('height', '<i4')], [('id', '<i4'), ('weight', '<f4')], [('weight', '<i4'), ('id', '<i4')],
            [('pair', '<i4', (2,))], [('id', '<i4'), ('weight', '>i4')], [('id', '<u4'), ('weight', '<i4')], [('p', [('id', '<i4'), ('weight', '<i4')])],
            [('id', '<i2'), ('x', '<i2'), ('weight', '<i4')], [('id', '<i8')], '<i8', '<f8', 'V8', 'S8']
    seen = {}
    for dt in rdts:
        arr = _np.frombuffer(buf, dtype=_np.dtype(dt))
        hid = Task(hm.f, arr).hash().decode()
        run.case(('record-dtypes', str(dt)), nontrivial=True)
        if hid in seen:
            run.fail('collision:record-dtypes', 'f(A) and f(B) share the identifier %s where A and B are arrays over the same 48 bytes with dtypes %s and %s' % (hid, seen[hid], dt),
                     {'kind': 'record-dtypes', 'a': str(seen[hid]), 'b': str(dt)})
        seen.setdefault(hid, dt)
    stats['record-dtypes'] = len(rdts)
    del jug.task.alltasks[:]
    # (b) random specs x mutations
    n = 250 if quick else 4000
    for i in range(n):
        s = norm(hm.gen_task(rng, rng.choice([1, 2, 2, 3])))
        if 'custom' in json.dumps(s):
            continue
        for label, other in mutations(rng, s):
            if other is None:
                continue
            other = norm(other)
            if json.dumps(other) == json.dumps(s):
                continue
            judge(label.split(':')[0] if label.startswith('atom') else label, s, other)
    run.counts['mutations'] = stats
    if drv is not None:
        if run.corr_disagreements == 0:
            run.obligation('correspondence: model identifier = real identifier on %d invocations' % run.corr_programs, True)
        drv.close()
    run.exhaustive = False


def replay(path):
    import warnings
    warnings.simplefilter('ignore')
    import jug.task
    from jug.backends.dict_store import dict_store
    from jugverif import hashmodel as hm
    d = json.load(open(path))
    r = d['replay']
    store = dict_store()
    jug.task.Task.store = store
    if r.get('kind') == 'record-dtypes':
        import ast
        import numpy as np
        from jug import Task
        ta, tb = [Task(hm.f, np.frombuffer(bytes(range(48)), dtype=np.dtype(ast.literal_eval(r[k]) if r[k][:1] in '[(' else r[k]))) for k in ('a', 'b')]
        same = ta.hash() == tb.hash()
        print('dtypes', r['a'], r['b'], 'identifiers', ta.hash(), tb.hash())
        print('property FAILS on this input' if same else 'property holds on this input')
        return 1 if same else 0
    if r.get('kind') == 'mapped-views':
        from jug import Task
        from jug.mapreduce import map as jmap
        xs = jmap(hm._m21, list(range(r['n'])), map_step=r['step'])
        ta, tb = [Task(hm.h2, eval(r[k].replace('None', ''), {'xs': xs})) for k in ('a', 'b')]
        same = ta.hash() == tb.hash()
        print('h2(%s) and h2(%s) with xs = map(f, range(%d), map_step=%d): identifiers' % (r['a'], r['b'], r['n'], r['step']), ta.hash(), tb.hash())
        print('property FAILS on this input' if same else 'property holds on this input')
        return 1 if same else 0
    if r.get('kind') != 'pair':
        print(d['what'])
        return 1
    lay = r.get('layouts') or [None, None]
    a = hm.build(r['a'], None if lay[0] is None else Layout(lay[0]))
    b = hm.build(r['b'], None if lay[1] is None else Layout(lay[1]))
    print('invocation A:', a, '\ninvocation B:', b)
    print('identifiers:', a.hash(), b.hash())
    same = a.hash() == b.hash()
    if same:
        store.dump('RESULT-OF-A', a.hash())
        print('after storing a result for A only: B.can_load() =', b.can_load(), ' B.value() =', b.value() if b.can_load() else None)
    print('property FAILS on this input' if same else 'property holds on this input')
    return 1 if same else 0
