"""C17 - map, mapreduce, reduce, currymap agree with the Python built-ins for all splits"""
import functools
import inspect
import itertools
import json

from jugverif import core

LEVEL = 'proof'
THEOREMS = ['Jug.C17.map_value', 'Jug.C17.map_index', 'Jug.C17.mapreduce_eq_fold', 'Jug.C17.reduce_eq_fold',
            'Jug.C17.currymap_value', 'Jug.C17.each_element_mapped_once', 'Jug.C17.slice_value', 'Jug.C17.index_value',
            'Jug.C17.slice_indices_in_bounds', 'Jug.C17.defaults_in_domain']


def extract():
    import jug.mapreduce as mr
    sm = inspect.signature(mr.map).parameters
    smr = inspect.signature(mr.mapreduce).parameters
    sr = inspect.signature(mr.reduce).parameters
    sc = inspect.signature(mr.currymap).parameters
    txt = 'namespace Jug.Generated.MapReduce\n'
    txt += 'def mapStepDefault : Nat := %d\n' % sm['map_step'].default
    txt += 'def currymapStepDefault : Nat := %d\n' % sc['map_step'].default
    txt += 'def mrMapStepDefault : Nat := %d\n' % smr['map_step'].default
    txt += 'def mrReduceStepDefault : Nat := %d\n' % smr['reduce_step'].default
    txt += 'def reduceStepDefault : Nat := %d\n' % sr['reduce_step'].default
    txt += 'end Jug.Generated.MapReduce\n'
    core.write_generated('MapReduceConsts', txt)


def _exc_name(e):
    return type(e).__name__


def real_mapreduce(n, ms, rs, tg):
    import jug.task
    from jug.mapreduce import mapreduce
    from jug.task import value
    from jugverif import jugenv, jf_c17 as F
    jugenv.reset()
    del F.CALLS[:]
    xs = list(range(n))
    t = mapreduce(F.tg_cat if tg else F.cat, F.tg_wrap if tg else F.wrap, xs, map_step=ms, reduce_step=rs)
    tasks = list(jug.task.alltasks)
    blocks = [list(tk.args[2]) for tk in tasks if tk.name == 'jug.mapreduce._jug_map_reduce']
    nreduce = sum(1 for tk in tasks if tk.name == 'jug.mapreduce._jug_reduce')
    jugenv.run_all()
    v = value(t)
    return {'blocks': blocks, 'value': v, 'ntasks_reduce': nreduce, 'calls': list(F.CALLS)}


def real_map(n, ms, tg):
    import jug.task
    from jug.mapreduce import map as jmap
    from jug.task import value
    from jugverif import jugenv, jf_c17 as F
    jugenv.reset()
    del F.CALLS[:]
    xs = list(range(n))
    m = jmap(F.tg_f21 if tg else F.f21, xs, map_step=ms)
    tasks = list(jug.task.alltasks)
    blocks = [list(tk.args[1]) if tk.name == 'jug.mapreduce._jug_map' else [tk.args[0]] for tk in tasks]
    jugenv.run_all()
    return m, {'blocks': blocks, 'value': value(m), 'items': [value(m[p]) for p in range(n)], 'calls': list(F.CALLS)}


def check(run):
    quick = run.tier == 'quick'
    run.rule = ('mapreduce/map/currymap/reduce: all (n, map_step, reduce_step) in a box, plain and TaskGenerator functions, '
                'non-commutative reducer (list concatenation); slices: all (start, stop, step) in a box for every n, nested slices and '
                'integer indices sampled; non-trivial = more than one block / non-empty selection; distinct by parameters')
    run.assumptions = ['task functions deterministic', 'tasks executed sequentially in creation order (scheduling is C01-C03)',
                       'CPython list/range/slice semantics as implemented by the interpreter running the harness']
    run.trusted = ['Lean 4.33.0 kernel', 'axioms propext, Classical.choice, Quot.sound', 'harness/jugverif/props/c17.py (differential driver)',
                   'model of CPython slice.indices / range in Model/MapReduce.lean (validated exhaustively on a box by this check)']
    extract()
    run.lean(['JugModel.Props.C17', 'jugdrv'], theorems_expected=THEOREMS)
    drv = core.Driver() if run.driver_ok else None
    rng = core.rng_for(run.seed, 'c17')

    def corr(name, req, real, keys):
        """compare model answer with real answer on the listed keys"""
        run.corr_programs += 1
        if drv is None:
            return
        ans = drv.ask(req)
        for k in keys:
            if ans.get(k) != real.get(k):
                run.corr_disagreements += 1
                run.obligation('correspondence model=code (%s)' % name, False, 'req=%s key=%s model=%s code=%s' % (json.dumps(req), k, ans.get(k), real.get(k)))
                return False
        return True

    # ---------------- mapreduce
    N = 15 if quick else 26
    MS = range(1, 6) if quick else range(1, 9)
    RS = range(2, 6) if quick else range(2, 10)
    for n, ms, rs in itertools.product(range(N), MS, RS):
        tg = (n + ms + rs) % 2 == 1
        try:
            real = real_mapreduce(n, ms, rs, tg)
        except Exception as e:
            run.fail('mapreduce-raises', 'mapreduce raised %r for n=%d map_step=%d reduce_step=%d' % (e, n, ms, rs), {'kind': 'mapreduce', 'n': n, 'ms': ms, 'rs': rs, 'tg': tg})
            continue
        xs = list(range(n))
        expect = functools.reduce(lambda a, b: a + b, [[x] for x in xs]) if n else []
        run.case(('mr', n, ms, rs), nontrivial=len(real['blocks']) > 1)
        run.count('mapreduce_cases')
        if real['value'] != expect:
            run.fail('mapreduce-value', 'value(mapreduce) = %r, functools.reduce gives %r (n=%d map_step=%d reduce_step=%d taskgen=%s)' % (real['value'], expect, n, ms, rs, tg),
                     {'kind': 'mapreduce', 'n': n, 'ms': ms, 'rs': rs, 'tg': tg})
        if sorted(real['calls']) != xs:
            run.fail('mapreduce-mapped-once', 'mapper called on %r, expected each of %r exactly once' % (real['calls'], xs), {'kind': 'mapreduce', 'n': n, 'ms': ms, 'rs': rs, 'tg': tg})
        model_real = {'blocks': real['blocks'], 'value': real['value'] if n else None}
        if drv is not None:
            ans = drv.ask({'op': 'mr', 'n': n, 'ms': ms, 'rs': rs})
            run.corr_programs += 1
            lv = ans.get('levels') or []
            ok = ans.get('blocks') == real['blocks'] and ans.get('value') == model_real['value'] and sum(lv[1:]) == real['ntasks_reduce']
            if not ok:
                run.corr_disagreements += 1
                run.obligation('correspondence model=code (mapreduce)', False, 'n=%d ms=%d rs=%d model=%s code=%s' % (n, ms, rs, ans, real))
        if n == 13 and ms == 2 and rs == 3:
            run.sample({'mapreduce': {'n': n, 'map_step': ms, 'reduce_step': rs, 'blocks': real['blocks'], 'value': real['value']}})
    # reduce / currymap
    from jug.mapreduce import reduce as jreduce, currymap
    from jug.task import value
    from jugverif import jugenv, jf_c17 as F
    for n, step in itertools.product(range(N), range(1, 7)):
        run.case(('cm', n, step), nontrivial=n > step)
        jugenv.reset()
        del F.CALLS[:]
        xs = [(i, i + 1) for i in range(n)]
        try:
            cm = currymap(F.mul, xs, map_step=step)
            jugenv.run_all()
            v = value(cm)
        except Exception as e:
            run.fail('currymap-raises', 'currymap raised %r n=%d step=%d' % (e, n, step), {'kind': 'currymap', 'n': n, 'ms': step})
            continue
        if v != [a * b for a, b in xs] or sorted(F.CALLS) != xs:
            run.fail('currymap-value', 'currymap gives %r (calls %r) for %r step %d' % (v, F.CALLS, xs, step), {'kind': 'currymap', 'n': n, 'ms': step})
        corr('currymap', {'op': 'currymap', 'n': n, 'ms': step}, {'value': v}, ['value'])
        # argument packs of other shapes: currymap(f, xs) is [f(*x) for x in xs] whatever the packs are
        import numpy as np
        for shape in ('list2', 'list1', 'nprow3', 'tuple0', 'mixed'):
            if shape == 'list2':
                packs = [[i, i + 2] for i in range(n)]
            elif shape == 'list1':
                packs = [[i] for i in range(n)]
            elif shape == 'nprow3':
                packs = list(np.arange(3 * n).reshape((n, 3)))
            elif shape == 'tuple0':
                packs = [() for i in range(n)]
            else:
                packs = [([i, 7] if i % 2 else (i, 8, 9)) for i in range(n)]
            want = [[int(a) for a in pk] for pk in packs]
            run.case(('cm', shape, n, step), nontrivial=n > step)
            jugenv.reset()
            del F.CALLS[:]
            rp = {'kind': 'currymap-packs', 'shape': shape, 'n': n, 'ms': step}
            try:
                cm = currymap(F.star, packs, map_step=step)
                jugenv.run_all()
                v = value(cm)
            except Exception as e:
                run.fail('currymap-raises', 'currymap over %s argument packs raised %r n=%d step=%d' % (shape, e, n, step), rp)
                continue
            if v != want or (shape != 'tuple0' and sorted(F.CALLS) != sorted(tuple(w) for w in want)):  # equal blocks of empty packs are one task
                run.fail('currymap-value', 'currymap over %s packs gives %r (calls %r), [f(*x) for x in xs] gives %r; step %d' % (shape, v, F.CALLS, want, step), rp)
        if step >= 2:
            jugenv.reset()
            ys = [[i] for i in range(n)]
            try:
                rd = jreduce(F.cat, ys, reduce_step=step)
                jugenv.run_all()
                v = value(rd)
            except Exception as e:
                run.fail('reduce-raises', 'reduce raised %r n=%d step=%d' % (e, n, step), {'kind': 'reduce', 'n': n, 'rs': step})
                continue
            run.case(('rd', n, step), nontrivial=n > 4)
            if v != list(range(n)):
                run.fail('reduce-value', 'reduce gives %r for n=%d reduce_step=%d' % (v, n, step), {'kind': 'reduce', 'n': n, 'rs': step})
            corr('reduce', {'op': 'reduce', 'n': n, 'rs': step}, {'value': v if n else None}, ['value'])

    # ---------------- map + indices + slices
    NS = range(0, 9) if quick else range(0, 14)
    B = 10 if quick else 16
    bounds = [None] + list(range(-B, B + 1))
    steps = [None, 1, 2, 3, -1, -2, -3] + ([] if quick else [4, -4, 7, -7, 0])
    if quick:
        steps = steps + [0]
    reqs, reals = [], []
    for n in NS:
        for ms in ([1, 2, 3, 4] if quick else [1, 2, 3, 4, 5, 7]):
            tg = (n + ms) % 2 == 0
            try:
                m, real = real_map(n, ms, tg)
            except Exception as e:
                run.fail('map-raises', 'map raised %r n=%d step=%d' % (e, n, ms), {'kind': 'map', 'n': n, 'ms': ms, 'tg': tg})
                continue
            ref = [2 * x + 1 for x in range(n)]
            run.case(('map', n, ms), nontrivial=n > ms)
            if real['value'] != ref or real['items'] != ref:
                run.fail('map-value', 'map value/items %r / %r differ from %r (n=%d step=%d)' % (real['value'], real['items'], ref, n, ms), {'kind': 'map', 'n': n, 'ms': ms, 'tg': tg})
            if sorted(real['calls']) != list(range(n)):
                run.fail('map-mapped-once', 'mapper calls %r' % (real['calls'],), {'kind': 'map', 'n': n, 'ms': ms, 'tg': tg})
            # every integer index from -n-2 to n+1 must behave as on the list (same element, or IndexError in the same cases)
            ints = []
            for pidx in range(-n - 2, n + 2):
                try:
                    exp_i = ref[pidx]
                except IndexError:
                    exp_i = None
                try:
                    got_i = value(m[pidx])
                except IndexError:
                    got_i = None
                except Exception as e:
                    got_i = 'EXC %s' % type(e).__name__
                ints.append(got_i)
                run.count('int_index_cases')
                if got_i != exp_i:
                    run.fail('map-int-index', 'value(map(f, range(%d), map_step=%d)[%d]) = %s, the list gives %s (None = IndexError)' % (n, ms, pidx, got_i, exp_i), {'kind': 'map-index', 'n': n, 'ms': ms, 'tg': tg, 'index': pidx})
            real['int_items'] = ints
            corr('map', {'op': 'map', 'n': n, 'ms': ms}, real, ['blocks', 'value', 'items', 'int_items'])
            if ms == 1:
                continue    # a plain python list of tasks: slicing is the interpreter's
            # slices: exhaustive box for one map_step per n, sampled for the others
            full = (ms == 3) or (not quick and ms == 4)
            for a, b, c in itertools.product(bounds, bounds, steps):
                if not full and rng.random() > 0.02:
                    continue
                sl = slice(a, b, c)
                run.count('slice_cases')
                try:
                    expect = ref[sl]
                    experr = None
                except Exception as e:
                    expect, experr = None, _exc_name(e)
                try:
                    s1 = m[sl]
                    got = value(s1)
                    goterr = None
                    glen = len(s1)
                except Exception as e:
                    got, goterr, glen = None, _exc_name(e), None
                run.case(('sl', n, a, b, c), nontrivial=bool(expect))
                rp = {'kind': 'slice', 'n': n, 'ms': ms, 'slices': [[a, b, c]], 'index': None}
                if goterr != experr or got != expect or (goterr is None and glen != len(expect)):
                    run.fail('slice-value', 'value(map(f, range(%d), %d)[%s:%s:%s]) = %r/%s (len %s), python list gives %r/%s' % (n, ms, a, b, c, got, goterr, glen, expect, experr), rp)
                reqs.append({'op': 'slice', 'n': n, 'slices': [[a, b, c]], 'index': None})
                reals.append(({'value': got, 'len': glen} if goterr is None else {'error': goterr}))
                # nested slice / integer index (sampled)
                if goterr is None and rng.random() < (0.05 if quick else 0.1):
                    a2, b2, c2 = rng.choice(bounds), rng.choice(bounds), rng.choice(steps)
                    i = rng.randint(-len(expect) - 2, len(expect) + 1)
                    for kind in ('nested', 'index'):
                        run.count('slice_' + kind)
                        try:
                            e2 = ref[sl][a2:b2:c2] if kind == 'nested' else ref[sl][i]
                            e2err = None
                        except Exception as e:
                            e2, e2err = None, _exc_name(e)
                        try:
                            g2 = value(s1[a2:b2:c2]) if kind == 'nested' else value(s1[i])
                            g2err = None
                        except Exception as e:
                            g2, g2err = None, _exc_name(e)
                        rq = {'op': 'slice', 'n': n, 'slices': [[a, b, c]] + ([[a2, b2, c2]] if kind == 'nested' else []), 'index': (i if kind == 'index' else None)}
                        run.case(('sl2', n, a, b, c, a2, b2, c2, i, kind), nontrivial=e2err is None and e2 not in ([], None))
                        if g2 != e2 or g2err != e2err:
                            run.fail('slice-' + kind, '%s on map(f, range(%d), %d): jug %r/%s python %r/%s' % (rq, n, ms, g2, g2err, e2, e2err), dict(rq, kind='slice', ms=ms))
                        reqs.append(rq)
                        r = {'error': g2err} if g2err else {'value': g2}
                        reals.append(r)
                        if len(run.samples) < 4 and e2err is None and e2:
                            run.sample({'slice': rq, 'jug': g2, 'python': e2})
    # ---------------- compositions: a mapped sequence (or a slice of one) as the input of a further map / mapreduce, with other steps
    def lst_or_err(fn):
        try:
            return fn(), None
        except Exception as e:
            return None, _exc_name(e)
    comp_n = [0, 1, 2, 5, 8] if quick else list(range(0, 11))
    comp_steps = [1, 2, 3, 4] if quick else [1, 2, 3, 4, 5, 7]
    for n, ms1, ms2 in itertools.product(comp_n, comp_steps, comp_steps):
        if quick and rng.random() < 0.4 and (ms1, ms2) != (2, 3):
            continue
        for shape in ('map-of-map', 'map-of-slice', 'mapreduce-of-map', 'map-of-map-tg'):
            from jug.mapreduce import map as jmap, mapreduce as jmr
            jugenv.reset()
            del F.CALLS[:]
            xs = list(range(n))
            ref1 = [2 * x + 1 for x in xs]
            rp = {'kind': 'compose', 'shape': shape, 'n': n, 'ms1': ms1, 'ms2': ms2}
            run.case(('compose', shape, n, ms1, ms2), nontrivial=n > max(ms1, ms2))
            run.count('composition_cases')
            try:
                m1 = jmap(F.tg_f21 if shape.endswith('tg') else F.f21, xs, map_step=ms1)
                if shape in ('map-of-map', 'map-of-map-tg'):
                    src, refsrc = m1, ref1
                elif shape == 'map-of-slice':
                    sl = slice(rng.choice([None, 1, -3]), rng.choice([None, -1, 6]), rng.choice([None, 2, -1]))
                    rp['slice'] = [sl.start, sl.stop, sl.step]
                    src, refsrc = (m1[sl] if ms1 > 1 else m1[sl]), ref1[sl]
                else:
                    src, refsrc = m1, ref1
                if shape == 'mapreduce-of-map':
                    if n == 0:
                        continue
                    t = jmr(F.cat, F.wrap, src, map_step=ms2, reduce_step=2 + ms1 % 3)
                    jugenv.run_all()
                    got = value(t)
                    exp = functools.reduce(lambda a, b: a + b, [[y] for y in refsrc])
                    if got != exp:
                        run.fail('compose-value', 'mapreduce(cat, wrap, map(f, range(%d), map_step=%d), map_step=%d) = %r, Python gives %r' % (n, ms1, ms2, got, exp), rp)
                    continue
                m2 = jmap(F.tg_g3 if shape.endswith('tg') else F.g3, src, map_step=ms2)
                jugenv.run_all()
                ref2 = [3 * y + 2 for y in refsrc]
                got = value(m2)
                if got != ref2:
                    run.fail('compose-value', '%s: value = %r, Python gives %r (n=%d, map_step %d then %d)' % (shape, got, ref2, n, ms1, ms2), rp)
                if ms2 == 1 and not isinstance(m2, list):
                    pass
                for pidx in range(-len(ref2) - 1, len(ref2) + 1):
                    e_i = lst_or_err(lambda: ref2[pidx])
                    g_i = lst_or_err(lambda: value(m2[pidx]))
                    if e_i != g_i:
                        run.fail('compose-index', '%s (n=%d, map_step %d then %d): element [%d] = %r/%s, the list gives %r/%s' % (shape, n, ms1, ms2, pidx, g_i[0], g_i[1], e_i[0], e_i[1]), dict(rp, index=pidx))
                        break
                for _ in range(6):
                    s2 = slice(rng.choice(bounds), rng.choice(bounds), rng.choice([None, 1, 2, -1, -2]))
                    e_s = lst_or_err(lambda: ref2[s2])
                    g_s = lst_or_err(lambda: value(m2[s2]))
                    if e_s != g_s:
                        run.fail('compose-slice', '%s (n=%d, map_step %d then %d): [%s:%s:%s] = %r/%s, the list gives %r/%s' % (shape, n, ms1, ms2, s2.start, s2.stop, s2.step, g_s[0], g_s[1], e_s[0], e_s[1]), dict(rp, slice2=[s2.start, s2.stop, s2.step]))
                        break
                ncalls = sorted(c[1] for c in F.CALLS if isinstance(c, tuple) and c[0] == 'g')
                if ncalls != sorted(refsrc):
                    run.fail('compose-mapped-once', '%s (n=%d, map_step %d then %d): the second mapper was called on %r, expected each of %r once' % (shape, n, ms1, ms2, ncalls, sorted(refsrc)), rp)
            except Exception as e:
                run.fail('compose-raises', '%s raised %r (n=%d, map_step %d then %d)' % (shape, e, n, ms1, ms2), rp)
    # ---------------- mappers / reducers of the same name in two modules, on equal inputs, in one store: each call gets its own function's values
    from jugverif import jf_c17b as F2
    for n, ms in itertools.product([1, 3, 4, 7] if quick else range(1, 12), [1, 2, 3] if quick else [1, 2, 3, 4, 5]):
        for tg in (False, True):
            jugenv.reset()
            del F.CALLS[:]
            del F2.CALLS[:]
            xs = list(range(n))
            rp = {'kind': 'same-name-mappers', 'n': n, 'ms': ms, 'tg': tg}
            run.case(('same-name', n, ms, tg), nontrivial=n > ms)
            run.count('same_name_mapper_cases')
            try:
                from jug.mapreduce import map as jmap, mapreduce as jmr
                ma = jmap(F.tg_f21 if tg else F.f21, xs, map_step=ms)
                mb = jmap(F2.tg_f21 if tg else F2.f21, xs, map_step=ms)
                ra = jmr(F.tg_cat if tg else F.cat, F.tg_wrap if tg else F.wrap, xs, map_step=ms, reduce_step=2)
                rb = jmr(F2.tg_cat if tg else F2.cat, F2.tg_wrap if tg else F2.wrap, xs, map_step=ms, reduce_step=2)
                jugenv.run_all()
                va, vb, wa, wb = value(ma), value(mb), value(ra), value(rb)
            except Exception as e:
                run.fail('same-name-raises', 'map / mapreduce with same-named functions of two modules raised %r (n=%d map_step=%d taskgen=%s)' % (e, n, ms, tg), rp)
                continue
            ea, eb = [2 * x + 1 for x in xs], [5 * x for x in xs]
            fa = functools.reduce(lambda a, b: a + b, [[x] for x in xs])
            fb = functools.reduce(lambda a, b: b + a, [['b', x] for x in xs])
            if va != ea or vb != eb:
                run.fail('same-name-map-value', 'map(jf_c17.f21, xs) and map(jf_c17b.f21, xs) in one store (n=%d, map_step=%d, task generators: %s) give %r and %r; [m(x) for x in xs] gives %r and %r'
                         % (n, ms, tg, va, vb, ea, eb), rp)
            elif wa != fa or wb != fb:
                run.fail('same-name-mapreduce-value', 'mapreduce with jf_c17.cat/wrap and with jf_c17b.cat/wrap in one store (n=%d, map_step=%d, task generators: %s) give %r and %r; functools.reduce gives %r and %r'
                         % (n, ms, tg, wa, wb, fa, fb), rp)
    # ---------------- several reducers over the same mapper, inputs and steps in one store (a total and a maximum of the same mapped data): each gets its own value
    from jug import TaskGenerator as _TG
    reducers = [('cat', F.cat), ('first', F.first), ('last', F.last), ('revcat', F2.cat)]
    for n, ms, rtg, mtg in itertools.product([2, 5] if quick else [2, 3, 5, 9], [1, 2] if quick else [1, 2, 4], (False, True), (False, True)):
        jugenv.reset()
        del F.CALLS[:]
        xs = list(range(n))
        rp = {'kind': 'reducers-sharing-a-mapper', 'n': n, 'ms': ms, 'reducers_are_taskgenerators': rtg, 'mapper_is_taskgenerator': mtg}
        run.case(('shared-mapper', n, ms, rtg, mtg), nontrivial=True)
        run.count('shared_mapper_cases')
        try:
            from jug.mapreduce import mapreduce as jmr
            mapper = F.tg_wrap if mtg else F.wrap
            ts = [jmr(_TG(r) if rtg else r, mapper, xs, map_step=ms, reduce_step=2) for _, r in reducers]
            jugenv.run_all()
            got = [value(t) for t in ts]
        except Exception as e:
            run.fail('shared-mapper-raises', 'mapreduce with several reducers over one mapper raised %r (n=%d map_step=%d reducers TaskGenerators: %s, mapper: %s)' % (e, n, ms, rtg, mtg), rp)
            continue
        exp = [functools.reduce(r, [[x] for x in xs]) for _, r in reducers]
        if got != exp:
            run.fail('shared-mapper-value', 'mapreduce(r, wrap, range(%d), map_step=%d) for r in %s in one store (reducers are TaskGenerators: %s, mapper is: %s) gives %r; functools.reduce gives %r'
                     % (n, ms, [nm for nm, _ in reducers], rtg, mtg, got, exp), rp)
    # ---------------- None and falsy values among the mapped / reduced values; reducers for which None is not neutral
    for n, ms, rs in itertools.product([1, 2, 3, 4, 6, 9] if quick else range(1, 14), [1, 2, 3] if quick else [1, 2, 3, 4, 5], [2, 3] if quick else [2, 3, 4, 5]):
        xs = list(range(n))
        for mname, rname in (('opt3', 'allornone'), ('opt3', 'pairup'), ('falsy', 'pairup'), ('falsy', 'first'), ('falsy', 'last'), ('boxed', 'allornone'), ('tg_opt3', 'tg_allornone')):
            mf, rf = getattr(F, mname), getattr(F, rname)
            rawm = getattr(mf, 'f', mf)
            rawr = getattr(rf, 'f', rf)
            rp = {'kind': 'falsy', 'mapper': mname, 'reducer': rname, 'n': n, 'ms': ms, 'rs': rs}
            run.case(('falsy', mname, rname, n, ms, rs), nontrivial=n > ms)
            run.count('falsy_value_cases')
            try:
                save = list(F.CALLS)
                exp = functools.reduce(rawr, [rawm(x) for x in xs])
                expmap = [rawm(x) for x in xs]
                from jug.mapreduce import map as jmap, mapreduce as jmr
                jugenv.reset()
                t = jmr(rf, mf, xs, map_step=ms, reduce_step=rs)
                m = jmap(mf, xs, map_step=ms)
                rd = jreduce(rf, [rawm(x) for x in xs], reduce_step=rs)
                jugenv.run_all()
                got, gotmap, gotrd = value(t), value(m), value(rd)
                if got != exp or type(got) != type(exp):
                    run.fail('falsy-mapreduce', 'mapreduce(%s, %s, range(%d), map_step=%d, reduce_step=%d) = %r, functools.reduce(r, map(m, xs)) = %r' % (rname, mname, n, ms, rs, got, exp), rp)
                if gotrd != exp or type(gotrd) != type(exp):
                    run.fail('falsy-reduce', 'reduce(%s, %r, reduce_step=%d) = %r, functools.reduce gives %r' % (rname, expmap, rs, gotrd, exp), rp)
                if gotmap != expmap or [type(v) for v in gotmap] != [type(v) for v in expmap]:
                    run.fail('falsy-map', 'map(%s, range(%d), map_step=%d) = %r, Python gives %r' % (mname, n, ms, gotmap, expmap), rp)
            except Exception as e:
                run.fail('falsy-raises', 'mapreduce/map/reduce with %s/%s raised %r (n=%d map_step=%d reduce_step=%d)' % (mname, rname, e, n, ms, rs), rp)
    # CPython slice.indices vs the model, on the whole box
    for n in NS:
        for a, b, c in itertools.product(bounds, bounds, steps):
            try:
                ind = list(slice(a, b, c).indices(n))
                r = {'indices': ind, 'len': len(range(*ind)), 'list': list(range(*ind))}
            except ValueError:
                r = {'error': 'ValueError'}
            reqs.append({'op': 'pyslice', 'n': n, 'slice': [a, b, c]})
            reals.append(r)
            run.count('pyslice_cases')
    if drv is not None:
        answers = drv.ask_many(reqs)
        run.corr_programs += len(reqs)
        bad = 0
        for rq, ans, real in zip(reqs, answers, reals):
            for k in real:
                if ans.get(k) != real[k]:
                    bad += 1
                    if bad <= 3:
                        run.obligation('correspondence model=code (%s)' % rq['op'], False, 'req=%s model=%s code=%s' % (json.dumps(rq), ans, real))
                    break
        run.corr_disagreements += bad
        if bad == 0:
            run.obligation('correspondence model=code on %d requests (mapreduce, map, currymap, reduce, slices, slice.indices)' % run.corr_programs, True)
        drv.close()
    run.exhaustive = False


def replay(path):
    import pprint
    d = json.load(open(path))
    r = d['replay']
    print('replaying', r)
    if r.get('kind') == 'mapreduce':
        real = real_mapreduce(r['n'], r['ms'], r['rs'], r.get('tg', False))
        pprint.pprint(real)
        ok = real['value'] == (list(range(r['n'])))
    elif r.get('kind') == 'slice':
        from jug.task import value
        m, real = real_map(r['n'], r['ms'], False)
        ref = [2 * x + 1 for x in range(r['n'])]
        try:
            x, y = m, ref
            for a, b, c in r['slices']:
                x, y = x[a:b:c], y[a:b:c]
            if r.get('index') is not None:
                x, y = x[r['index']], y[r['index']]
            got, exp = value(x), y
        except Exception as e:
            got, exp = repr(e), 'see python'
        print('jug:', got, 'python:', exp)
        ok = got == exp
    else:
        print('nothing to replay on the implementation (broken proof/correspondence): see file')
        return 1
    print('property holds on this input' if ok else 'property FAILS on this input')
    return 0 if ok else 1
