"""Real `jug status` (cached / uncached), `jug check`, `jug invalidate` (command line and shell function) on generated DAGs and store states,
against the Lean graph model (C09, C15)."""
import io
import json
import os
import random
import re

import jug
import jug.task

from jugverif import core, execengine as E, genprog, jugenv, lib, sched, fakeredis


def analyse_with_values(text, scratch):
    """like execengine.analyse_text but also keeps the real values (to put arbitrary subsets of results into a store)"""
    P = E.analyse_text(text, scratch)
    from jug.backends.dict_store import dict_store
    s = dict_store()
    tasks, space = sched.load_jugfile(P['path'], s)
    index, order = sched.index_tasks(tasks, P['index'])
    for t in tasks:
        t.store = s
    vals = []
    for t in order:
        t.run()
        vals.append(t.value())
    P['values'] = vals
    P['hashes'] = [t.hash() for t in order]
    P['names'] = [t.name for t in order]
    P['alltasks_idx'] = [index[t.hash()] for t in tasks]      # one entry per Task object (duplicates share an index)
    return P


class GBackend:
    def __init__(self, kind, scratch, tag):
        self.kind = kind
        self.dir = os.path.join(scratch, 'g-' + tag)
        if kind == 'dict':
            from jug.backends.dict_store import dict_store
            self.shared = dict_store()
        if kind == 'redis':
            self.server = fakeredis.FakeServer()

    def store(self):
        if self.kind == 'dict':
            return self.shared
        if self.kind in ('file', 'filepack'):
            from jug.backends.file_store import file_store
            return file_store(self.dir)
        return fakeredis.make_store(self.server)

    def jugdir(self):
        """what is passed as options.jugdir"""
        return self.dir if self.kind in ('file', 'filepack') else self.store()


def put_state(P, be, present, locks):
    s = be.store()
    for i in sorted(present):
        s.dump(P['values'][i], P['hashes'][i])
    if be.kind == 'filepack' and present:
        s.update_pack()
    for i, st in locks.items():
        l = s.getlock(P['hashes'][i])
        if not l.get():
            raise core.InfraError('cannot lock')
        if st == 'failed':
            l.fail()
    try:
        s.close() if be.kind != 'dict' else None
    except Exception:
        pass


def observe(P, be):
    s = be.store()
    res = [bool(s.can_load(h)) for h in P['hashes']]
    locks = []
    for h in P['hashes']:
        l = s.getlock(h)
        locks.append(('failed' if l.is_failed() else 'held') if l.is_locked() else 'free')
    return res, locks


def reset_jug():
    jug.task.Task.store = None
    del jug.task.alltasks[:]


def parse_table(lines):
    """rows of print_task_summary_table -> {name: [counts]}, total"""
    rows, total = {}, None
    cur = None
    header = None
    for ln in lines:
        if header is None:
            if 'Task name' in ln:
                header = ln.split()[:-2]
            continue
        if set(ln.strip()) <= set('-.') or not ln.strip():
            continue
        m = re.match(r'^((?:\s*\d+){%d})\s\s(.*)$' % len(header), ln)
        if m:
            nums = [int(x) for x in m.group(1).split()]
            name = m.group(2).strip()
            if name == 'Total':
                total = nums
                cur = None
            else:
                rows[name] = nums
                cur = name
        elif cur is not None and ln.strip():
            ext = ln.strip()
            rows[cur + ext] = rows.pop(cur)
            cur = cur + ext
    return header, rows, total


def real_status(P, be, cached=False, cache_file=None, short=False):
    import jug.subcommands.status as st
    o = jugenv.options()
    o.jugfile = P['path']
    o.jugdir = be.jugdir()
    o.status_cache = cached
    o.status_cache_file = cache_file or ':memory:'
    o.status_cache_clear = False
    o.short = short
    out = []
    o.print_out = lambda *a: out.append(' '.join(str(x) for x in a))
    reset_jug()
    try:
        st.status.run(options=o)
    finally:
        reset_jug()
    if short:
        return None, None, parse_short(out), out
    header, rows, total = parse_table(out)
    return header, rows, total, out


def parse_short(out):
    """the one-line summary of `jug status --short` as (failed, waiting + ready, complete, active), or None when it is worded in a way this does not understand"""
    import re
    line = ' '.join(out).strip()
    nums = [int(x) for x in re.findall(r'\d+', line)]
    if re.search(r'all tasks complete', line, re.I) and len(nums) == 1:
        return (0, 0, nums[0], 0)
    if re.search(r'waiting to be run', line) and re.search(r'failed', line) and re.search(r'complete', line):
        if re.search(r'none active', line) and len(nums) == 3:
            return (nums[1], nums[0], nums[2], 0)
        if len(nums) == 4:
            return (nums[1], nums[0], nums[2], nums[3])
    return None


def real_graph_counts(P, be):
    """the per-name counters `jug graph` writes into its dot file (a third copy of the status classifier): {name: [failed, waiting, ready, complete, active]}"""
    import re
    import shutil
    import jug.subcommands.graph as gr
    o = jugenv.options()
    d = os.path.dirname(P['path'])
    o.jugfile = P['path']
    o.graph_no_status = False
    o.graph_format = 'png'
    reset_jug()
    saved_cc = gr.check_call

    def no_dot(*a, **k):
        raise FileNotFoundError('dot')          # rendering is not part of the property; the dot file is
    gr.check_call = no_dot
    saved_err = getattr(gr, 'stderr', None)
    if saved_err is not None:
        gr.stderr = io.StringIO()
    import contextlib
    try:
        s = be.store()
        jug.task.Task.store = s
        store, space = jug.jug.init(P['path'], store=s)
        with contextlib.redirect_stderr(io.StringIO()):
            gr.graph.run(store=store, options=o)
        text = open(os.path.splitext(P['path'])[0] + '.dot').read()
    finally:
        gr.check_call = saved_cc
        if saved_err is not None:
            gr.stderr = saved_err
        reset_jug()
    rows = {}
    for m in re.finditer(r'"([^"]+)" \[label=<.*?<b>(\d+)F</b>.*?<b>(\d+)W</b>.*?<b>(\d+)R</b>.*?<b>(\d+)A</b>.*?<b>(\d+)C</b>', text):
        name, f, w, r, a, c = m.group(1), int(m.group(2)), int(m.group(3)), int(m.group(4)), int(m.group(5)), int(m.group(6))
        rows[name] = [f, w, r, c, a]
    return rows


def real_check(P, be):
    import jug.subcommands.check as ck
    reset_jug()
    try:
        s = be.store()
        jug.task.Task.store = s
        store, space = jug.jug.init(P['path'], store=s)
        rc = ck._check_or_sleep_until(store, False)
    finally:
        reset_jug()
    return rc


def expected_counts(P, statuses):
    col = {'failed': 0, 'waiting': 1, 'ready': 2, 'finished': 3, 'running': 4}
    rows = {}
    for i in P['alltasks_idx']:
        rows.setdefault(P['names'][i], [0] * 5)[col[statuses[i]]] += 1
    total = [sum(r[c] for r in rows.values()) for c in range(5)]
    return rows, total


def spec_status(P, res, locks, i):
    if res[i]:
        return 'finished'
    if any(not res[d] for d in P['info'][i]['reported']):
        return 'waiting'
    return {'free': 'ready', 'held': 'running', 'failed': 'failed'}[locks[i]]


def multiplicity(P):
    """the jugfile may define the same task several times (same hash): status counts Task objects, the model counts hashes"""
    return None


def real_invalidate_cli(P, be, target):
    import jug.subcommands.invalidate as inv
    o = jugenv.options()
    o.invalid_name = target
    out = []
    o.print_out = lambda *a: out.append(' '.join(str(x) for x in a))
    o.short = False
    reset_jug()
    try:
        s = be.store()
        jug.task.Task.store = s
        store, space = jug.jug.init(P['path'], store=s)
        inv.invalidate.run(store=store, options=o)
        try:
            store.close() if be.kind != 'dict' else None
        except Exception:
            pass
    finally:
        reset_jug()
    return out


def real_invalidate_shell(P, be, target_indices):
    import jug.subcommands.shell as sh
    reset_jug()
    try:
        s = be.store()
        jug.task.Task.store = s
        store, space = jug.jug.init(P['path'], store=s)
        tasks = list(jug.task.alltasks)
        reverse = {}
        byhash = {}
        for t in tasks:
            byhash.setdefault(t.hash(), t)
        import contextlib
        with contextlib.redirect_stdout(io.StringIO()):
            for i in target_indices:
                sh.invalidate(tasks, reverse, byhash[P['hashes'][i]])
        try:
            store.close() if be.kind != 'dict' else None
        except Exception:
            pass
    finally:
        reset_jug()


def real_shell_session(P, be, root_lists):
    """one interactive session (one shared reverse-edge table, as in `jug shell`): invalidate the first roots, recompute what is missing, invalidate the
    next roots, ... - the store is observed after the last invalidation"""
    import jug.subcommands.shell as sh
    import contextlib
    reset_jug()
    try:
        s = be.store()
        jug.task.Task.store = s
        store, space = jug.jug.init(P['path'], store=s)
        tasks = list(jug.task.alltasks)
        for t in tasks:
            t.store = s
        reverse = {}
        byhash = {}
        for t in tasks:
            byhash.setdefault(t.hash(), t)
        with contextlib.redirect_stdout(io.StringIO()):
            for k, roots in enumerate(root_lists):
                if k:
                    # recompute, as the user of the shell (or an execute in another terminal) would
                    pending = [t for t in tasks if not t.can_load()]
                    for _ in range(len(pending) + 1):
                        rest = []
                        for t in pending:
                            if t.can_load():
                                continue
                            if t.can_run():
                                t.unload()
                                t.run()
                            else:
                                rest.append(t)
                        pending = rest
                        if not pending:
                            break
                    for t in tasks:
                        t.unload()
                for i in roots:
                    sh.invalidate(tasks, reverse, byhash[P['hashes'][i]])
        try:
            store.close() if be.kind != 'dict' else None
        except Exception:
            pass
    finally:
        reset_jug()


def closure(P, roots, key):
    bad = set(roots)
    changed = True
    while changed:
        changed = False
        for i, inf in enumerate(P['info']):
            if i not in bad and any(d in bad for d in inf[key]):
                bad.add(i)
                changed = True
    return bad
