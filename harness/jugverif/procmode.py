"""Real `jug execute` processes with real signals (SIGTERM, SIGINT, SIGKILL) on the file backend."""
import json
import os
import signal
import subprocess
import sys
import time

from jugverif import core

JUGFILE = '''
import os, time
from jug import TaskGenerator
HERE = os.path.dirname(os.path.abspath(__file__))

def _log(s):
    with open(os.path.join(HERE, 'calls.log'), 'a') as f:
        f.write(s + '\\n')

@TaskGenerator
def step(k, x):
    _log('B %d %d' % (k, os.getpid()))
    if os.path.exists(os.path.join(HERE, 'sleep-%d' % k)):
        time.sleep(1.2)
    if os.path.exists(os.path.join(HERE, 'block-%d' % k)):
        open(os.path.join(HERE, 'inside-%d' % k), 'w').close()
        try:
            if os.path.exists(os.path.join(HERE, 'block-in-syscall')):
                # the task function waits inside ONE system call (an external program, a socket, a pipe): nothing arrives before the stop request
                _r, _w = os.pipe()
                os.read(_r, 1)
            while os.path.exists(os.path.join(HERE, 'block-%d' % k)):
                time.sleep(0.01)
        finally:
            if os.path.exists(os.path.join(HERE, 'slow-cleanup')):
                # the function's own cleanup takes a while (closing files, removing scratch data ...)
                open(os.path.join(HERE, 'cleaning-%d' % k), 'w').close()
                t0 = time.time()
                while time.time() - t0 < 5.0:
                    try:
                        time.sleep(0.05)
                    except BaseException:
                        pass
    _log('E %d %d' % (k, os.getpid()))
    return x + k

@TaskGenerator
def total(xs):
    _log('B 99 %d' % os.getpid())
    _log('E 99 %d' % os.getpid())
    return sum(xs)

chain = [step(1, 0)]
for k in range(2, %(n)d + 1):
    chain.append(step(k, chain[-1]))
    if k == 2 and os.path.exists(os.path.join(HERE, 'with-barrier')):
        from jug import barrier
        barrier()           # the rest of the file is only seen by a later pass of `jug execute`
side = [step(100 + k, k) for k in range(3)]
result = total(chain + side)
'''


def jug_cmd(args, cwd, env_extra=None, timeout=120):
    env = dict(os.environ)
    env['PYTHONPATH'] = core.REPO + os.pathsep + env.get('PYTHONPATH', '')
    env['HOME'] = cwd
    env.update(env_extra or {})
    return subprocess.run([sys.executable, '-c', 'from jug.jug import main; main()'] + args, cwd=cwd, env=env, stdout=subprocess.PIPE, stderr=subprocess.STDOUT, text=True, timeout=timeout)


def jug_popen(args, cwd, env_extra=None):
    env = dict(os.environ)
    env['PYTHONPATH'] = core.REPO + os.pathsep + env.get('PYTHONPATH', '')
    env['HOME'] = cwd
    env.update(env_extra or {})
    return subprocess.Popen([sys.executable, '-c', 'from jug.jug import main; main()'] + args, cwd=cwd, env=env, stdout=subprocess.PIPE, stderr=subprocess.STDOUT, text=True)


def expected(n):
    vals = {}
    x = 0
    for k in range(1, n + 1):
        x = x + k
        vals[k] = x
    side = [k + 100 + k for k in range(3)]
    chain = [vals[k] for k in range(1, n + 1)]
    return sum(chain + side)


def read_calls(d):
    p = os.path.join(d, 'calls.log')
    if not os.path.exists(p):
        return []
    return [l.split() for l in open(p).read().split('\n') if l.strip()]


STORE_DIR = ['jugfile.jugdata']      # the store of the current case (a jugfile may select another one with jug.set_jugdir)


def lock_files(d):
    p = os.path.join(d, STORE_DIR[0], 'locks')
    return sorted(os.listdir(p)) if os.path.exists(p) else []


def signal_case(n, victim_k, sig, extra_args=(), env_extra=None, jugdir_prefix='', repeat=False, barrier=False, broken_stdio=False, set_jugdir=False, in_syscall=False):
    """run `jug execute`, deliver `sig` while the worker is inside step(victim_k); then inspect, then let a second worker finish.
    returns a dict of observations"""
    d = core.scratch_dir('jugproc-')
    try:
        STORE_DIR[0] = 'jugfile.jugdata'
        with open(os.path.join(d, 'jugfile.py'), 'w') as f:
            text = JUGFILE.replace('%(n)d', str(n))
            if set_jugdir:
                # the project keeps its results where the jugfile says (jug.set_jugdir), not where the command line default points
                text = text.replace('\nchain = [step(1, 0)]', '\nimport jug\njug.set_jugdir(os.path.join(HERE, "chosen.jugdata"))\nchain = [step(1, 0)]', 1)
                assert 'set_jugdir' in text
                STORE_DIR[0] = 'chosen.jugdata'
            f.write(text)
        open(os.path.join(d, 'block-%d' % victim_k), 'w').close()
        if barrier:
            open(os.path.join(d, 'with-barrier'), 'w').close()
        if in_syscall:
            open(os.path.join(d, 'block-in-syscall'), 'w').close()
        common = ['--will-cite', '--nr-wait-cycles', '2', '--wait-cycle-time', '0'] + list(extra_args)
        rfd = None
        if broken_stdio:
            # the worker writes into a pipe (`jug execute ... | tee log`, a batch system's log collector) whose reader goes away before the stop request
            rfd, wfd = os.pipe()
            env = dict(os.environ)
            env['PYTHONPATH'] = core.REPO + os.pathsep + env.get('PYTHONPATH', '')
            env['HOME'] = d
            env.update(env_extra or {})
            p = subprocess.Popen([sys.executable, '-c', 'from jug.jug import main; main()', 'execute', 'jugfile.py'] + common, cwd=d, env=env, stdout=wfd, stderr=wfd, text=True)
            os.close(wfd)
        else:
            p = jug_popen(['execute', 'jugfile.py'] + common, d, env_extra)
        t0 = time.time()
        while not os.path.exists(os.path.join(d, 'inside-%d' % victim_k)):
            if p.poll() is not None or time.time() - t0 > 240:
                out = p.communicate()[0]
                return {'error': 'worker never reached the task: rc=%s out=%s' % (p.returncode, out[-500:])}
            time.sleep(0.01)
        if repeat:
            open(os.path.join(d, 'slow-cleanup'), 'w').close()
        if rfd is not None:
            os.close(rfd)
            rfd = None
        if in_syscall:
            time.sleep(0.3)         # let it get into the system call
        p.send_signal(sig)
        if repeat:
            # an impatient user / batch system repeats the request while the task function is still unwinding
            t1 = time.time()
            while not os.path.exists(os.path.join(d, 'cleaning-%d' % victim_k)) and time.time() - t1 < 60 and p.poll() is None:
                time.sleep(0.01)
            time.sleep(0.2)
            if p.poll() is None:
                p.send_signal(sig)
        try:
            out1 = p.communicate(timeout=(45 if in_syscall else 120))[0] or ''       # generous: the machine may be heavily loaded; a worker that ignores the signal never ends
        except subprocess.TimeoutExpired:
            p.kill()
            out1 = p.communicate()[0] or ''
            os.unlink(os.path.join(d, 'block-%d' % victim_k)) if os.path.exists(os.path.join(d, 'block-%d' % victim_k)) else None
            return {'error': 'worker did not end after signal %s%s%s' % (sig, ' (its output pipe had lost its reader)' if broken_stdio else '', ' (its task function was waiting inside a system call - reading a pipe -: the request is only acted upon when that call returns by itself, and a batch system sends SIGKILL long before)' if in_syscall else ''), 'out': out1[-500:]}
        obs = {'rc1': p.returncode, 'locks_after_signal': lock_files(d)}
        calls = read_calls(d)
        obs['calls_before'] = calls
        os.unlink(os.path.join(d, 'block-%d' % victim_k))
        # result files of the interrupted task? status says
        st = jug_cmd(['status', 'jugfile.py', '--will-cite'], d)
        obs['status_after_signal'] = st.stdout
        if sig == signal.SIGKILL:
            # survivors skip; then recovery
            r2 = jug_cmd(['execute', 'jugfile.py'] + common, d)
            obs['rc_survivor'] = r2.returncode
            obs['locks_after_survivor'] = lock_files(d)
            cl = jug_cmd(['cleanup', 'jugfile.py', '--locks-only', '--will-cite'], d)
            obs['cleanup_out'] = cl.stdout.strip().split('\n')[-1]
            obs['locks_after_cleanup'] = lock_files(d)
        r3 = jug_cmd(['execute', 'jugfile.py'] + common, d)
        obs['rc2'] = r3.returncode
        obs['out2'] = r3.stdout[-400:]
        obs['locks_end'] = lock_files(d)
        chk = jug_cmd(['check', 'jugfile.py', '--will-cite'], d)
        obs['check_rc'] = chk.returncode
        # final value
        code = ("import jug, jug.task; jug.init('jugfile.py', 'jugfile.jugdata'); import sys; m = sys.modules['jugfile'];"
                "print(jug.task.value(m.result))")
        v = core.fresh_python(code, cwd=d)
        obs['value'] = v.stdout.strip()
        obs['value_err'] = v.stderr[-300:]
        obs['expected'] = str(expected(n))
        obs['calls'] = read_calls(d)
        tmp = os.path.join(d, STORE_DIR[0], 'tempfiles')
        obs['tempfiles'] = sorted(os.listdir(tmp)) if os.path.exists(tmp) else []
        return obs
    finally:
        core.rm_rf(d)


def judge_stop(run, obs, params):
    rp = {'kind': 'process', 'params': params}
    if 'error' in obs:
        run.fail('process-stop-hangs', 'process mode: %s' % obs['error'], rp)
        return
    exp_rc = {signal.SIGTERM: 1, signal.SIGINT: 130}.get(params['sig'])
    if obs['locks_after_signal']:
        run.fail('lock-left-after-stop', 'real `jug execute` %s received signal %d inside step(%d): exit status %s, lock files left: %s' % (params.get('args'), params['sig'], params['k'], obs['rc1'], obs['locks_after_signal']), rp)
    # an uncaught KeyboardInterrupt makes CPython kill itself with SIGINT: the shell reports 130, subprocess reports -2
    if exp_rc is not None and obs['rc1'] not in ((exp_rc, -2) if params['sig'] == signal.SIGINT else (exp_rc,)):
        run.fail('stop-exit-status', 'real `jug execute` received signal %d: exit status %s (expected %d)' % (params['sig'], obs['rc1'], exp_rc), rp)
    started = [c for c in obs['calls_before'] if c[0] == 'B' and int(c[1]) == params['k']]
    ended = [c for c in obs['calls_before'] if c[0] == 'E' and int(c[1]) == params['k']]
    if obs['rc2'] != 0 or obs['check_rc'] != 0 or obs['value'] != obs['expected'] or obs['locks_end']:
        run.fail('continuation-incomplete', 'after the stop a second `jug execute` did not finish correctly: rc=%s check=%s value=%s expected=%s locks=%s %s' % (obs['rc2'], obs['check_rc'], obs['value'], obs['expected'], obs['locks_end'], obs['value_err']), rp)
    # nothing that had finished is executed twice
    ends = {}
    for c in obs['calls']:
        if c[0] == 'E':
            ends[c[1]] = ends.get(c[1], 0) + 1
    twice = [k for k, n in ends.items() if n > 1]
    if twice:
        run.fail('continuation-reruns-finished', 'tasks %s completed twice' % twice, rp)


def stop_family(run, rng, n=4):
    for i in range(n):
        sig = [signal.SIGTERM, signal.SIGINT][i % 2]
        args = [['--no-check-environment'], ['--keep-going'], [], ['--keep-failed', '--keep-going'], ['--aggressive-unload'], ['--keep-failed']][i % 6]
        k = rng.choice([1, 2, 3, 101])
        repeat = (i % 4 == 0)       # a repeated SIGTERM while the task function is still unwinding
        barrier = (i % 4 == 2)      # the signal arrives in a later pass over a jugfile with a barrier
        if barrier:
            k = rng.choice([3, 4])
        params = {'sig': int(sig), 'k': k, 'args': args, 'n': 4, 'repeat': repeat, 'barrier': barrier}
        obs = signal_case(4, k, sig, args, repeat=repeat, barrier=barrier)
        judge_stop(run, obs, params)
        run.case(('proc-stop', i, run.seed), nontrivial='error' not in obs)
        run.count('process_mode_stop_cases')
        if i == 0:
            run.sample({'process_mode': params, 'observed': {k: v for k, v in obs.items() if k in ('rc1', 'locks_after_signal', 'rc2', 'value', 'expected')}})
    # the stop request arrives while the task function waits inside one long system call
    for j, sig in enumerate([signal.SIGTERM, signal.SIGINT][:max(1, n // 4)]):
        params = {'sig': int(sig), 'k': 2, 'args': [], 'n': 4, 'in_syscall': True}
        obs = signal_case(4, 2, sig, [], in_syscall=True)
        judge_stop(run, obs, params)
        run.case(('proc-stop-in-syscall', j, run.seed), nontrivial='error' not in obs)
        run.count('process_mode_stop_cases')
    # the stop request arrives when the worker's output pipe has lost its reader (the log collector of the batch system went first)
    for j, args in enumerate([['--keep-going', '--keep-failed'], []][:max(1, n // 4)]):
        params = {'sig': int(signal.SIGTERM), 'k': 2, 'args': args, 'n': 4, 'broken_stdio': True}
        obs = signal_case(4, 2, signal.SIGTERM, args, broken_stdio=True)
        judge_stop(run, obs, params)
        run.case(('proc-stop-broken-stdio', j, run.seed), nontrivial='error' not in obs)
        run.count('process_mode_stop_cases')


def exit_condition_case(kind):
    """real `jug execute` under one of the documented exit conditions; returns observations"""
    d = core.scratch_dir('jugproc-')
    try:
        with open(os.path.join(d, 'jugfile.py'), 'w') as f:
            f.write(JUGFILE.replace('%(n)d', '4'))
        if kind.endswith('+barrier'):
            # a jugfile with a barrier: `jug execute` reloads it in passes; an exit condition ends the worker all the same
            open(os.path.join(d, 'with-barrier'), 'w').close()
            kind = kind[:-len('+barrier')]
        common = ['--will-cite', '--nr-wait-cycles', '2', '--wait-cycle-time', '0']
        env = {}
        stopfile = None
        if kind == 'stop-file-default':
            stopfile = '__jug_please_stop_running.txt'
        elif kind == 'stop-file-env':
            env['JUG_EXIT_IF_FILE_EXISTS'] = 'custom-stop.txt'
            stopfile = 'custom-stop.txt'
        elif kind == 'stop-file-default-with-env':
            env['JUG_EXIT_IF_FILE_EXISTS'] = 'custom-stop.txt'
            stopfile = '__jug_please_stop_running.txt'
        elif kind == 'max-tasks':
            env['JUG_MAX_TASKS'] = '2'
        elif kind == 'max-time':
            env['JUG_MAX_SECONDS'] = '1'
            open(os.path.join(d, 'sleep-1'), 'w').close()
        if stopfile:
            open(os.path.join(d, stopfile), 'w').close()
        r1 = jug_cmd(['execute', 'jugfile.py'] + common, d, env)
        calls1 = read_calls(d)
        obs = {'rc1': r1.returncode, 'out1': r1.stdout[-300:], 'begun1': sorted({c[1] for c in calls1 if c[0] == 'B'}), 'ended1': sorted({c[1] for c in calls1 if c[0] == 'E'}), 'locks1': lock_files(d)}
        if stopfile:
            os.unlink(os.path.join(d, stopfile))
        r2 = jug_cmd(['execute', 'jugfile.py'] + common, d)
        obs['rc2'] = r2.returncode
        obs['locks_end'] = lock_files(d)
        obs['check_rc'] = jug_cmd(['check', 'jugfile.py', '--will-cite'], d).returncode
        ends = {}
        for c in read_calls(d):
            if c[0] == 'E':
                ends[c[1]] = ends.get(c[1], 0) + 1
        obs['twice'] = sorted(k for k, v in ends.items() if v > 1)
        obs['total_tasks'] = 8
        return obs
    finally:
        core.rm_rf(d)


def exit_condition_family(run, kinds):
    for kind in kinds:
        obs = exit_condition_case(kind)
        rp = {'kind': 'process-exit-condition', 'condition': kind}
        run.case(('proc-exit-condition', kind), nontrivial=True)
        run.count('process_mode_exit_condition_cases')
        n1 = len(obs['ended1'])
        kind = kind.replace('+barrier', '')
        if kind.startswith('stop-file') and (n1 != 0 or obs['begun1']):
            run.fail('stop-file-ignored', 'exit condition %s: the stop file existed before the worker started, yet it ran tasks %s (exit status %s)' % (kind, obs['begun1'], obs['rc1']), rp)
        if kind == 'max-tasks' and n1 != 2:
            run.fail('task-limit-ignored', 'JUG_MAX_TASKS=2: the worker completed %d tasks %s (exit status %s)' % (n1, obs['ended1'], obs['rc1']), rp)
        if kind == 'max-time' and not (1 <= n1 < obs['total_tasks']):
            run.fail('time-limit-ignored', 'JUG_MAX_SECONDS=1 with a first task of 1.2 s: the worker completed %d tasks (exit status %s)' % (n1, obs['rc1']), rp)
        if obs['rc1'] != 0:
            run.fail('exit-condition-status', 'exit condition %s: exit status %s (expected 0): %s' % (kind, obs['rc1'], obs['out1']), rp)
        if obs['locks1']:
            run.fail('lock-left-after-stop', 'exit condition %s: the worker left lock files %s' % (kind, obs['locks1']), rp)
        if obs['rc2'] != 0 or obs['check_rc'] != 0 or obs['locks_end'] or obs['twice']:
            run.fail('continuation-incomplete', 'after exit condition %s a second `jug execute` did not finish correctly: rc=%s check=%s locks=%s executed twice=%s' % (kind, obs['rc2'], obs['check_rc'], obs['locks_end'], obs['twice']), rp)


def judge_kill(run, obs, params):
    rp = {'kind': 'process', 'params': params}
    if 'error' in obs:
        run.fail('process-kill-error', 'process mode: %s' % obs['error'], rp)
        return
    if len(obs['locks_after_signal']) != 1:
        run.fail('crash-residue', 'SIGKILL inside step(%d): expected exactly the lock of that task to remain, found %s' % (params['k'], obs['locks_after_signal']), rp)
    if obs['rc_survivor'] != 0:
        run.fail('survivor-affected', 'a surviving worker exited with %s' % obs['rc_survivor'], rp)
    if obs['locks_after_cleanup']:
        run.fail('cleanup-locks-only', 'cleanup --locks-only left %s (%s)' % (obs['locks_after_cleanup'], obs['cleanup_out']), rp)
    if obs['rc2'] != 0 or obs['check_rc'] != 0 or obs['value'] != obs['expected'] or obs['locks_end']:
        run.fail('recovery-incomplete', 'after SIGKILL + cleanup --locks-only the recovery run did not finish correctly: rc=%s check=%s value=%s expected=%s locks=%s %s' % (obs['rc2'], obs['check_rc'], obs['value'], obs['expected'], obs['locks_end'], obs['out2'][-200:]), rp)
    ends = {}
    for c in obs['calls']:
        if c[0] == 'E':
            ends[c[1]] = ends.get(c[1], 0) + 1
    twice = [k for k, n in ends.items() if n > 1]
    if twice:
        run.fail('recovery-reruns-finished', 'tasks %s completed twice' % twice, rp)


def kill_family(run, rng, n=3):
    # the last two cases: a jugfile with a barrier - the worker is killed inside a task before the barrier (the jugfile is only partially loadable
    # when the stale lock has to be removed) and inside one behind it
    # ... and a project whose jugfile selects its store itself (jug.set_jugdir): every command of the recovery must act on that store
    plan = [(rng.choice([1, 2, 3, 4, 101]), False, False) for _ in range(n)] + [(rng.choice([1, 2]), True, False), (rng.choice([3, 4]), True, False), (rng.choice([1, 2, 3]), False, True)]
    for i, (k, barrier, setjd) in enumerate(plan):
        params = {'sig': int(signal.SIGKILL), 'k': k, 'n': 4, 'barrier': barrier, 'set_jugdir': setjd}
        obs = signal_case(4, k, signal.SIGKILL, barrier=barrier, set_jugdir=setjd)
        judge_kill(run, obs, params)
        run.case(('proc-kill', i, run.seed), nontrivial='error' not in obs)
        run.count('process_mode_kill_cases')
        if i == 0:
            run.sample({'process_mode': params, 'observed': {k: v for k, v in obs.items() if k in ('rc1', 'locks_after_signal', 'rc_survivor', 'cleanup_out', 'rc2', 'value', 'expected')}})
