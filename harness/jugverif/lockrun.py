"""Exhaustive / random interleaving of real lock operations at the granularity of their shared-state primitives."""
import os
import threading

from jugverif import core, fsgate, fakeredis

TL = threading.local()
OPS = ['get', 'release', 'is_locked', 'fail', 'is_failed']
MODEL_OP = {'get': 'get', 'release': 'release', 'is_locked': 'isLocked', 'fail': 'fail', 'is_failed': 'isFailed'}


class World:
    """one lock name on one backend, n client lock objects (as n processes would have)"""

    def __init__(self, backend, n, scratch, hook):
        self.backend = backend
        self.undo = []
        name = 'c' * 40
        if backend in ('file', 'keepalive'):
            import jug.backends.file_store as fs
            self.dir = os.path.join(scratch, 'w')
            os.makedirs(self.dir, exist_ok=True)
            full = os.path.join(self.dir, 'locks', name + '.lock')
            self.lockpath = full

            def fhook(prim, path, *extra):
                if prim in ('exists', 'open', 'unlink', 'utime', 'stat', 'rename', 'link') and isinstance(path, str) and os.path.abspath(path) == full:
                    hook(prim)
            self.undo.append(fsgate.install(fhook))
            if backend == 'keepalive':
                saved = fs.Popen

                class FakePopen:
                    def __init__(self, *a, **k):
                        pass

                    def kill(self):
                        pass
                fs.Popen = FakePopen
                self.undo.append(lambda: setattr(fs, 'Popen', saved))
            cls = fs.file_based_lock if backend == 'file' else fs.file_keepalive_based_lock
            self.locks = [cls(self.dir, name) for _ in range(n)]
            self.other = cls(self.dir, 'd' * 40)
        elif backend == 'redis':
            import jug.backends.redis_store as rs
            self.server = fakeredis.FakeServer()
            key = b'lock:' + name.encode()
            self.server.hook = lambda cmd, k: hook(cmd) if k == key else None
            self.locks = [rs.redis_lock(fakeredis.FakeRedis(self.server), name) for _ in range(n)]
            self.other = rs.redis_lock(fakeredis.FakeRedis(self.server), 'd' * 40)
        elif backend == 'dict':
            import jug.backends.dict_store as ds
            self.store = ds.dict_store()
            self.locks = [self.store.getlock(name) for _ in range(n)]
            self.other = self.store.getlock('d' * 40)
        else:
            raise ValueError(backend)

    def close(self):
        for u in reversed(self.undo):
            u()
        if hasattr(self, 'dir'):
            core.rm_rf(self.dir)


class Baton:
    """runs client threads one gate at a time following a list of choices"""

    def __init__(self, n, choices, rng=None):
        self.n = n
        self.choices = list(choices)
        self.rng = rng
        self.cv = threading.Condition()
        self.waiting = {}
        self.turn = None
        self.done = set()
        self.decisions = []     # (chosen client, sorted runnable, gate kind, detail)

    def gate(self, kind, detail=None):
        i = getattr(TL, 'i', None)
        if i is None:
            return
        with self.cv:
            self.waiting[i] = (kind, detail)
            self.cv.notify_all()
            while self.turn != i:
                self.cv.wait()
            self.turn = None
            del self.waiting[i]

    def finish(self, i):
        with self.cv:
            self.done.add(i)
            self.cv.notify_all()

    def run(self):
        while True:
            with self.cv:
                while True:
                    alive = self.n - len(self.done)
                    if alive == 0:
                        return
                    if self.turn is None and len(self.waiting) == alive:
                        break
                    self.cv.wait(0.002)
                runnable = sorted(self.waiting)
                k = len(self.decisions)
                if k < len(self.choices) and self.choices[k] in runnable:
                    c = self.choices[k]
                elif self.rng is not None:
                    c = self.rng.choice(runnable)
                else:
                    c = runnable[0]
                self.decisions.append((c, runnable, self.waiting[c][0], self.waiting[c][1]))
                self.turn = c
                self.cv.notify_all()


def norm(r):
    if r is None:
        return None
    if isinstance(r, bool):
        return r
    if isinstance(r, int):
        return bool(r)
    return r


def run_once(backend, scripts, scratch, choices=(), rng=None, pre=None):
    """scripts[i]: list of op names; 'release?'/'fail?' are performed only if the client currently holds the lock (owner discipline).
    pre: operations performed sequentially by client 0's lock object before the concurrent part (e.g. ['get', 'fail']).
    returns (decisions, events for the model, results per client [(op, result)], holder history violations)"""
    n = len(scripts)
    baton = Baton(n, choices, rng)
    world = World(backend, n, scratch, lambda prim: baton.gate('prim', prim))
    results = [[] for _ in range(n)]
    holds = [False] * n
    try:
        for op in (pre or []):
            r = norm(getattr(world.locks[0], op)())
            if op == 'get' and r is True:
                holds[0] = True
            if op == 'release':
                holds[0] = False

        def client(i):
            TL.i = i
            try:
                for op in scripts[i]:
                    if op.endswith('?'):
                        if not holds[i]:
                            continue
                        op = op[:-1]
                    baton.gate('call', op)
                    if op == 'release':
                        holds[i] = False
                    try:
                        r = norm(getattr(world.locks[i], op)())
                    except Exception as e:
                        r = 'raised:' + type(e).__name__
                    if op == 'get' and r is True:
                        holds[i] = True
                    results[i].append((op, r))
            finally:
                TL.i = None
                baton.finish(i)
        ths = [threading.Thread(target=client, args=(i,), daemon=True) for i in range(n)]
        for t in ths:
            t.start()
        baton.run()
        for t in ths:
            t.join(timeout=10)
        other_free = norm(world.other.is_locked())
    finally:
        world.close()
    events = []
    for c, runnable, kind, detail in baton.decisions:
        events.append(['start', c, MODEL_OP[detail]] if kind == 'call' else ['step', c])
    return baton.decisions, events, results, other_free


def explore_all(backend, scripts, scratch, limit=100000, pre=None):
    """stateless DFS over all schedules"""
    stack = [[]]
    n = 0
    while stack:
        prefix = stack.pop()
        decisions, events, results, other = run_once(backend, scripts, scratch, prefix, pre=pre)
        n += 1
        yield decisions, events, results, other
        chosen = [d[0] for d in decisions]
        for k in range(len(prefix), len(decisions)):
            for alt in decisions[k][1]:
                if alt != decisions[k][0]:
                    stack.append(chosen[:k] + [alt])
        if n >= limit:
            return
