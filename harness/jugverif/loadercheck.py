"""Generated multi-phase jugfiles (barrier / bvalue with value-dependent shape / compound tasks) loaded and executed by the real jug,
against the Lean loader model (C14, C18)."""
import json
import os
import subprocess
import sys

import jug
import jug.task
import jug.jug

from jugverif import core, lib, jugenv

MARKS = []          # side effects of the jugfile body: (label,) appended when the statement after a barrier / bvalue executes
NOTES = {}          # values bvalue handed to the jugfile


def loader_namespace():
    """jug-mode names for generated phase jugfiles"""
    from jug import TaskGenerator, CompoundTaskGenerator, barrier, bvalue
    ns = {n: TaskGenerator(f) for n, f in lib.RAW.items()}

    def _comp(k, a):
        x = ns['inc'](k * 1000 + 1, a)
        y = ns['inc'](k * 1000 + 2, x)
        return ns['add'](k * 1000 + 3, x, y)
    _comp.__module__ = 'jugverif.loadercheck'
    _comp.__name__ = _comp.__qualname__ = '_comp'
    ns.update(barrier=barrier, bvalue=bvalue, comp=CompoundTaskGenerator(_comp), mark=lambda l: MARKS.append(l), note=lambda n, v: NOTES.__setitem__(n, v))
    return ns


def plain_loader_namespace():
    ns = dict(lib.RAW)

    def comp(k, a):
        x = ns['inc'](k * 1000 + 1, a)
        y = ns['inc'](k * 1000 + 2, x)
        return ns['add'](k * 1000 + 3, x, y)
    ns.update(barrier=lambda: None, bvalue=lambda x: x, comp=comp, mark=lambda l: None, note=lambda n, v: None)
    return ns


HEADER = 'from jugverif.loadercheck import loader_namespace as _ns\nglobals().update(_ns())\n'


class PGen:
    def __init__(self, rng, nstat, compound=True, barriers=True):
        self.rng = rng
        self.lines = []
        self.vars = []              # (name, key, value)
        self.k = 0
        self.pns = plain_loader_namespace()
        self.items = []             # model items in file order
        self.marks = {}             # label -> keys defined before it
        self.nstat, self.compound, self.barriers = nstat, compound, barriers
        self.keys = []

    def newk(self):
        self.k += 1
        return self.k

    def emit(self, line):
        exec(line, self.pns)
        self.lines.append(line)

    def pick(self):
        return self.rng.choice(self.vars)

    def gen(self):
        r = self.rng
        for si in range(self.nstat):
            kinds = ['task', 'task', 'task']
            if self.vars and self.barriers:
                kinds += ['barrier', 'bvalue']
            if self.vars and self.compound:
                kinds += ['compound']
            kind = r.choice(kinds) if self.vars else 'task'
            if kind == 'task':
                k = self.newk()
                name = 'v%d' % k
                if not self.vars or r.random() < 0.3:
                    self.emit('%s = %s' % (name, r.choice(['const(%d)' % k, 'idx(%d, 3)' % k])))
                    deps = []
                elif r.random() < 0.5:
                    a = self.pick()
                    self.emit('%s = inc(%d, %s)' % (name, k, a[0]))
                    deps = [a[1]] if a[1] is not None else a[3]
                else:
                    a, b = self.pick(), self.pick()
                    self.emit('%s = add(%d, %s, %s)' % (name, k, a[0], b[0]))
                    deps = ([a[1]] if a[1] is not None else a[3]) + ([b[1]] if b[1] is not None else b[3])
                self.vars.append((name, k, self.pns[name], []))
                self.items.append(('task', k, sorted(set(deps))))
                self.keys.append(k)
            elif kind == 'barrier':
                label = 'b%d' % len(self.marks)
                self.emit('barrier()')
                self.emit('mark(%r)' % label)
                self.marks[label] = list(self.keys)
                self.items.append(('barrier',))
            elif kind == 'bvalue':
                cands = [v for v in self.vars if isinstance(v[2], int) and v[1] is not None and 0 <= v[2] <= 3]
                if not cands:
                    continue
                t = r.choice(cands)
                label = 'n%d' % len(self.marks)
                n = t[2]
                kb = self.newk()
                self.k += 5
                a = self.pick()
                # bvalue of a single task, or of a container of tasks (every member must be complete, otherwise the import pauses)
                others = [v for v in self.vars if v[1] is not None and v[0] != t[0]]
                form = r.choice(['single', 'single', 'list', 'tuple', 'dict']) if others else 'single'
                extra = []
                if form == 'single':
                    self.emit('%s = bvalue(%s)' % (label, t[0]))
                else:
                    x = r.choice(others)
                    extra = [(x[1], lib.canon(x[2]))]
                    if form == 'list':
                        self.emit('%s = bvalue([%s, %s])[0]' % (label, t[0], x[0]))
                    elif form == 'tuple':
                        self.emit('%s = bvalue((%s, %s))[1]' % (label, x[0], t[0]))
                    else:
                        self.emit("%s = bvalue({'a': %s, 'b': %s})['a']" % (label, t[0], x[0]))
                self.emit('note(%r, %s)' % (label, label))
                self.emit('mark(%r)' % label)
                self.marks[label] = list(self.keys)
                wname = 'w%d' % kb
                self.emit('%s = [inc(%d + j, %s) for j in range(%s)]' % (wname, kb, a[0], label))
                adeps = [a[1]] if a[1] is not None else a[3]
                branch = [('task', kb + j, sorted(set(adeps))) for j in range(n)]
                self.items.append(('bvalue', t[1], lib.canon(n), branch, extra))
                for j in range(n):
                    self.keys.append(kb + j)
                self.vars.append((wname, None, self.pns[wname], [kb + j for j in range(n)]))
            elif kind == 'compound':
                k = self.newk()
                a = self.pick()
                name = 'v%d' % k
                self.emit('%s = comp(%d, %s)' % (name, k, a[0]))
                adeps = [a[1]] if a[1] is not None else a[3]
                inner = [(k * 1000 + 1, sorted(set(adeps))), (k * 1000 + 2, [k * 1000 + 1]), (k * 1000 + 3, [k * 1000 + 1, k * 1000 + 2])]
                self.items.append(('compound', k, inner))
                self.vars.append((name, k, self.pns[name], []))
                self.keys.append(k)
        return self

    def model(self):
        """JF JSON (built back to front)"""
        def build(items):
            if not items:
                return {'done': True}
            it = items[0]
            rest = items[1:]
            if it[0] == 'task':
                return {'task': [it[1], it[2]], 'rest': build(rest)}
            if it[0] == 'barrier':
                return {'barrier': build(rest)}
            if it[0] == 'bvalue':
                node = {'bvalue': it[1], 'cases': {it[2]: build(list(it[3]) + list(rest))}}
                # the other members of the container: each must have a result too (modelled as a bvalue whose value is not used)
                for xk, xv in (it[4] if len(it) > 4 else []):
                    node = {'bvalue': xk, 'cases': {xv: node}}
                return node
            if it[0] == 'compound':
                return {'compound': [it[1], [[ik, d] for ik, d in it[2]]], 'rest': build(rest)}
        return build(self.items)

    def text(self):
        return HEADER + '\n'.join(self.lines) + '\n'

    def plain_values(self):
        ns = plain_loader_namespace()
        exec(compile('\n'.join(self.lines), '<plain twin>', 'exec'), ns)
        return {v[0]: ns[v[0]] for v in self.vars}


def key_of(t, comp_hash_to_key):
    if t.name == 'jug.compound.compound_task_execute':
        return comp_hash_to_key.get(t.hash(), -1)
    if t.args and isinstance(t.args[0], int):
        return t.args[0]
    return -1


def real_load(path, store):
    """jug.init against `store`: (tasks, jugspace, hasbarrier flag)"""
    del MARKS[:]
    NOTES.clear()
    del jug.task.alltasks[:]
    saved = jug.task.Task.store
    jug.task.Task.store = store
    try:
        _, space = jug.jug.init(path, store=store)
        tasks = list(jug.task.alltasks)
        for t in tasks:
            t.hash()
    finally:
        jug.task.Task.store = saved
        del jug.task.alltasks[:]
    return tasks, space, bool(space.get('__jug__hasbarrier__', False)), list(MARKS), dict(NOTES)


def run_to_completion(path, store, max_phases=60):
    """what `jug execute` does in one process: load, run the loop, reload while a barrier was hit. Returns (phases, executed keys per phase, final space)"""
    phases = []
    jug.task.Task.store = store
    try:
        for _ in range(max_phases):
            tasks, space, flag, marks, notes = real_load(path, store)
            jug.task.Task.store = store
            for t in tasks:
                t.store = store
            ran = []
            o = jugenv.options()
            from jug.hooks import register
            register.reset_all_hooks()
            register.register_hook('execute.task-executed1', lambda t: ran.append(t))
            failures = jug.jug.execution_loop(list(tasks), o)
            register.reset_all_hooks()
            phases.append({'ntasks': len(tasks), 'flag': flag, 'ran': ran, 'marks': marks})
            if failures:
                raise RuntimeError('failures during execution')
            if not flag:
                return phases, tasks, space
        raise RuntimeError('reload loop did not terminate')
    finally:
        jug.task.Task.store = None


def jug_cli(args, cwd, timeout=120, env_extra=None):
    env = dict(os.environ)
    env.update(env_extra or {})
    env['PYTHONPATH'] = core.REPO + os.pathsep + os.path.join(core.VERIF, 'harness') + os.pathsep + env.get('PYTHONPATH', '')
    env['HOME'] = cwd
    try:
        return subprocess.run([sys.executable, '-c', 'from jug.jug import main; main()'] + args, cwd=cwd, env=env, stdout=subprocess.PIPE, stderr=subprocess.STDOUT, text=True, timeout=timeout)
    except subprocess.TimeoutExpired as e:
        # a command that does not come to an end is an observation, not a harness failure: exit status 124 (as timeout(1) reports it) and what it printed so far
        out = e.stdout.decode('utf-8', 'replace') if isinstance(e.stdout, bytes) else (e.stdout or '')
        return subprocess.CompletedProcess(e.cmd, 124, out[-2000:] + '\n[jug %s did not end within %d s]' % (' '.join(args[:1]), timeout), None)


def jug_cli_popen(args, cwd):
    env = dict(os.environ)
    env['PYTHONPATH'] = core.REPO + os.pathsep + os.path.join(core.VERIF, 'harness') + os.pathsep + env.get('PYTHONPATH', '')
    env['HOME'] = cwd
    return subprocess.Popen([sys.executable, '-c', 'from jug.jug import main; main()'] + args, cwd=cwd, env=env, stdout=subprocess.PIPE, stderr=subprocess.STDOUT, text=True)
