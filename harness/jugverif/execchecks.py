"""The checks of the execution group (C01 C02 C03 C11 C12 C13) share this module: setup (regenerate the worker-loop paths,
build theorems + bridge + driver, audit) and the families of multi-worker runs with their monitors."""
import json
import os
import random
import time as _time

from jugverif import core, execengine as E, lib, sched, genprog

BACKENDS = ['dict', 'file', 'filepack', 'redis']


def setup(run, theorems):
    from jugverif import extract_worker as X
    del X.DIVERGENT[:]
    paths = X.all_paths(thorough=True)    # the same (full) set in both tiers: no rebuild ping-pong between tiers
    for shape, flags, log in X.DIVERGENT[:1]:
        run.fail('worker-loop-does-not-end', 'the real execution_loop over the task list with dependency lists %s (flags keep-going/keep-failed/aggressive-unload = %s) does not come to an end when the '
                 'store and the locks keep giving these answers (another worker holds a lock and never releases it, e.g. because it was killed): %s ... (%d events, still polling)'
                 % (shape, list(flags), json.dumps(log[:14]), len(log)), {'kind': 'worker-loop-divergence', 'shape': shape, 'flags': list(flags), 'events': log[:200]})
    run.counts['worker_loop_divergent_paths'] = len(X.DIVERGENT)
    if X.DIVERGENT:
        # keep the generated file small: the divergent paths (which cannot conform) and a sample of the others
        div = [p for p in paths if not p[3] or p[3][-1][0] not in ('ret', 'raise')]
        paths = div[:20] + [p for p in paths if p not in div][:300]
    core.write_generated('WorkerPaths', X.emit(paths))
    run.counts['worker_loop_paths_extracted'] = len(paths)
    run.counts['worker_loop_events_extracted'] = sum(len(p[3]) for p in paths)
    run.lean(['JugModel.Props.' + run.prop, 'JugModel.Props.WorkerBridge', 'JugModel.Props.LoopBridge', 'jugdrv'], theorems_expected=theorems + ['Jug.WorkerBridge.worker_conforms'])
    run.trusted = ['Lean 4.33.0 kernel', 'axioms propext, Classical.choice, Quot.sound',
                   'harness/jugverif/extract_worker.py (exhaustive scripted-environment exploration of the real execution_loop; emitted paths are checked by the kernel against lstep)',
                   'harness/jugverif/sched.py (gated scheduler: every store/lock call and function entry/exit of the real worker loop is one atomic event)',
                   'JugModel/Driver/Exec.lean (replays recorded histories through `accept`)']
    run.assumptions = ['task functions deterministic and side-effect free', 'a store/lock call is atomic at this layer (justified for locks by C04, for result publication by C05)',
                       'redis protocol exercised through an in-memory stand-in with single-command atomicity (no server in the sandbox)',
                       'signals are raised at the gate points (function entry, hooks, wait loop), not between arbitrary byte codes']
    return core.Driver() if run.driver_ok else None


def loop_correspondence(run, drv):
    """the scheduling loop as a Lean program (Model/Loop.lean, theorem LoopBridge.loop_scans_all for lists of any length) against the real
    execution_loop: same task lists, flags, wait-cycle counts and answer streams, event lists compared. A difference is not a verdict by
    itself: the obligations the theorems need (per-task protocol `lconforms`, scan obligation `lscanOK`) are then evaluated directly on the
    real traces, which is the tie the completeness theorem had before the loop program existed; only a trace that breaks them is a violation."""
    if drv is None:
        return
    from jugverif import loopcheck
    rng = core.rng_for(run.seed, 'loop', run.prop)
    quick = run.tier == 'quick'
    dis = loopcheck.check_loop(run, drv, rng, 300 if quick else 3000, 4 if quick else 30)
    n = sum(v for k, v in run.counts.items() if k.startswith('loop_cases_'))
    run.counts['loop_model_disagreements'] = dis
    if dis == 0:
        run.obligation('scheduling loop: the Lean program loopTrace and the real execution_loop produce the same events on %d task lists (0-300 tasks; flags, wait cycles, '
                       'answer streams; %d events), so LoopBridge.loop_scans_all (any list length) applies to the code' % (n, run.counts.get('loop_events_compared', 0)), True)
    else:
        bad = [f for f in run.failures if f['key'] in ('loop-obligation', 'loop-diverges')]
        if bad:
            run.obligation('scheduling loop: Lean program = real execution_loop', False, '%d of %d task lists differ and some real traces break the obligations' % (dis, n))
        else:
            run.notes.append('the scheduling-loop program of Model/Loop.lean no longer describes execution_loop exactly (%d of %d task lists give different events); every real trace still '
                             'meets the obligations of the completeness theorem (per-task protocol and scan obligation evaluated on the trace), so the tie falls back to sampled traces plus '
                             'the extracted paths' % (dis, n))
            run.obligation('scheduling loop: every real trace of execution_loop on %d task lists meets the per-task protocol and the scan obligation (the loop program differs on %d of them: '
                           'loop_scans_all no longer applies literally)' % (n, dis), True)


def describe_case(P, params):
    return {'program': P['text'], 'params': params}


def model_check(run, drv, P, c, what, params, extra_events=None, nworkers=None, flags=None):
    """trace validation: the recorded history must be accepted by the Lean transition system and end in the observed shared state"""
    spinning = sorted(w for w, r in getattr(c, 'results', {}).items() if r == ('runaway',))
    if spinning and extra_events is None:
        mine = [e for e in E.to_model_events(c.trace[-60:]) if len(e) > 1 and e[1] in spinning]
        fail_case(run, 'worker-does-not-terminate', 'workers %s never came to an end (more than 40000 scheduling steps; a legitimate run needs a few thousand): they keep polling instead of '
                  'finishing or giving up (%s); their last events: %s' % (spinning, what, json.dumps(mine[-10:])), P, params)
        run.count('runaway_cases')
        if run.counts.get('runaway_cases', 0) >= 2:
            raise core.StopCheck()
        return None
    if drv is None:
        return None
    trace = c.trace if extra_events is None else extra_events
    ans = E.validate_trace(drv, P, trace, flags if flags is not None else c.flags, c.res0, nworkers or c.nworkers)
    run.corr_programs += 1
    run.count('traces_validated')
    run.count('trace_events_validated', len(trace))
    if not ans.get('ok'):
        run.corr_disagreements += 1
        i = ans.get('at', 0)
        run.obligation('trace validation: real history accepted by the model (%s)' % what, False,
                       'event %d %s %s; preceding: %s; case %s' % (i, json.dumps(ans.get('event')), ans.get('why'), json.dumps(E.to_model_events(trace[max(0, i - 6):i])), json.dumps(params)))
        return ans
    # the scan obligation of C01.exec_complete: a worker leaves with status 0 only after accounting for every task
    if ans.get('scanViolatedAt') is not None:
        i = ans['scanViolatedAt']
        ev = E.to_model_events(trace)[i]
        w = ev[1]
        run.count('scan_obligation_violations')
        mine = [e for e in E.to_model_events(trace[:i]) if len(e) > 1 and e[1] == w]
        fail_case(run, 'leaves-without-accounting-for-every-task', 'worker %d ended its loop with status 0 (event %d of the history) without having accounted for every task: for some task it has neither seen the '
                  'result, nor found it locked by another worker, nor - since it last finished a task - seen a dependency of it without a result (%s); its last events: %s'
                  % (w, i, what, json.dumps(mine[-12:])), P, params)
    else:
        run.count('scan_obligation_checked')
    # final shared state must agree
    mres = {i: v for i, v in enumerate(ans['res']) if v is not None}
    if mres != c.final and extra_events is None:
        run.corr_disagreements += 1
        run.obligation('trace validation: final store of the model = final store of the run (%s)' % what, False, 'model %s real %s case %s' % (mres, c.final, json.dumps(params)))
    return ans


def fail_case(run, key, what, P, params):
    run.fail(key, what, {'kind': 'exec', 'program': P['text'], 'params': params})


def check_values_complete(run, P, c, params, expect_complete=True, prop_key='C01'):
    bad = E.monitor_values(P, c)
    for i, name, got, exp in bad[:2]:
        fail_case(run, 'wrong-value', 'stored result of task %d (%s) is %s, sequential evaluation gives %s' % (i, name, got[:200], exp[:200]), P, params)
    if expect_complete:
        missing = [i for i in range(P['n']) if i not in c.final]
        if missing:
            fail_case(run, 'incomplete', 'execute finished without failures (%s) but tasks %s (%s) have no result' % (c.results, missing[:5], [P['info'][i]['name'] for i in missing[:3]]), P, params)
    return not bad


def top_values_check(run, P, c, params):
    """value() of every top-level variable, through a fresh load on a fresh store object, equals the plain-Python twin"""
    import jug.task
    s = c.backend.store()
    tasks, space = sched.load_jugfile(P['path'], s)
    for t in tasks:
        t.store = s
    for k in sorted(P['plain']):
        try:
            v = jug.task.value(space[k])
        except Exception as e:
            v = 'EXC %s: %s' % (type(e).__name__, e)
        if lib.canon(v) != lib.canon(P['plain'][k]) or type(v) != type(P['plain'][k]):
            fail_case(run, 'value-differs-from-python', 'value(%s) = %s after execute, plain Python evaluation of the same text gives %s' % (k, lib.canon(v)[:200], lib.canon(P['plain'][k])[:200]), P, params)
            return False
    return True


def rerun_check(run, drv, P, c, params, rng):
    """a second execute executes nothing and changes no value"""
    before = dict(c.final)
    c2 = E.run_case.__wrapped__(P, c, rng) if hasattr(E.run_case, '__wrapped__') else None
    return before


def second_execute(P, backend, nworkers, rng, index, flags=None, faults=None, max_tasks=None):
    del lib.CALLS[:]
    lib.FAULTS.clear()
    for k, plan in (faults or {}).items():
        lib.FAULTS[k] = plan
    trace, results, _ = sched.run_workers(P['path'], lambda w: backend.store(), nworkers, rng, flags=flags, index=index, max_tasks=max_tasks)
    lib.FAULTS.clear()
    return trace, results, list(lib.CALLS)


def final_state(P, backend):
    fs = backend.store()
    final, locks = {}, {}
    for h, i in P['index'].items():
        if fs.can_load(h):
            try:
                final[i] = lib.canon(fs.load(h))
            except Exception as e:
                final[i] = 'LOAD-ERROR %s' % e
        l = fs.getlock(h)
        if l.is_locked():
            locks[i] = 'failed' if l.is_failed() else 'held'
    return final, locks


def contention(trace):
    """did two workers compete for the same task? (a lock answered False, or a positive re-check under the lock)"""
    n = 0
    holding = {}
    for e in trace:
        if e[0] == 'lock' and not e[3]:
            n += 1
        if e[0] == 'lock' and e[3]:
            holding[e[1]] = e[2]
        if e[0] == 'canLoad' and e[3] and holding.get(e[1]) == e[2]:
            n += 1
        if e[0] == 'unlock':
            holding.pop(e[1], None)
    return n


def workers_active(trace):
    return len({e[1] for e in trace if e[0] == 'begin'})


def stall_policy(victim, task):
    """stall `victim` between its first negative can_load(task) and its lock(task) until another worker has stored the task
    (the window the re-check under the lock exists for)"""
    state = {'armed': False, 'released': False}

    def policy(s, runnable):
        if state['released']:
            return None
        # has the victim seen can_load(task) = False ?
        if not state['armed']:
            for e in reversed(s.trace):
                if e[0] == 'canLoad' and e[1] == victim and e[2] == task and not e[3]:
                    state['armed'] = True
                    break
        if state['armed']:
            if any(e[0] == 'dump' and e[2] == task for e in s.trace):
                state['released'] = True
                return victim if victim in runnable else None
            pend = s.waiting.get(victim)
            if pend is not None and pend[0] == 'lock' and pend[1] == task:
                others = [w for w in runnable if w != victim]
                if others:
                    return s.rng.choice(others)
                state['released'] = True
        return None
    return policy


def hold_inside_policy(holder, task, steps=250):
    """once `holder` is inside the function of `task`, keep it there while the others run for `steps` scheduling decisions"""
    state = {'left': steps}

    def policy(s, runnable):
        if state['left'] <= 0:
            return None
        pend = s.waiting.get(holder)
        if pend is not None and pend[0] == 'endOk' and pend[1] == task:
            others = [w for w in runnable if w != holder]
            if others:
                state['left'] -= 1
                return s.rng.choice(others)
            state['left'] = 0
        return None
    return policy


def replay(path, prop):
    """re-run the stored case on the real code and re-evaluate the monitors"""
    d = json.load(open(path))
    r = d['replay']
    if r.get('kind') == 'loop-stop':
        from jugverif import loopcheck
        real = loopcheck.run_real(r['deps'], r['flags'], r['nr'], list(r['answers']), None, stop_at=tuple(r['stop_at']))
        print('task list (dependency lists):', r['deps'], 'flags:', r['flags'], 'answers:', r['answers'][:80], 'stop request during store/lock call', r['stop_at'])
        print('events of the real execution_loop:', json.dumps(real[:200]))
        st = [i for i, e in enumerate(real) if e[0] == 'stop']
        later = [e for e in real[st[0] + 1:] if e[0] in ('begin', 'dump', 'lock', 'endOk', 'preExec')] if st else []
        bad = bool(later) or not (real and real[-1][0] == 'raise')
        print('property FAILS on this input (the worker goes on after the stop request)' if bad else 'property holds on this input')
        return 1 if bad else 0
    if r.get('kind') == 'loop':
        from jugverif import loopcheck
        run = core.Run(prop, 'quick')
        drv = core.Driver()
        try:
            c = {k: r[k] for k in ('deps', 'flags', 'nr', 'answers')}
            real = loopcheck.run_real(c['deps'], c['flags'], c['nr'], list(c['answers']))
            print('task list (dependency lists):', c['deps'], 'flags:', c['flags'], 'wait cycles:', c['nr'], 'answers:', c['answers'][:80])
            print('events of the real execution_loop:', json.dumps(real[:200]))
            ok = loopcheck.judge_real_trace(run, drv, c, real)
        finally:
            drv.close()
        for f in run.failures:
            print('FAILS:', f['what'][:600])
        print('property FAILS on this input' if not ok else 'property holds on this input')
        return 0 if ok else 1
    if r.get('kind') != 'exec':
        print(d['what'])
        return 1
    import importlib
    mod = importlib.import_module('jugverif.props.' + prop.lower())
    scratch = core.scratch_dir()
    try:
        run = core.Run(prop, 'quick')
        P = E.analyse_text(r['program'], scratch)
        print(r['program'])
        print('params:', json.dumps(r['params']))
        mod.run_one(run, None, P, scratch, r['params'])
        for f in run.failures:
            print('FAILS:', f['what'][:600])
        print('property FAILS on this input' if run.failures else 'property holds on this input')
        return 1 if run.failures else 0
    finally:
        core.rm_rf(scratch)


# ----------------------------------------------------------------------------------------------- generic case runner

def make_policy(spec):
    if not spec:
        return None
    if spec[0] == 'stall':
        return stall_policy(spec[1], spec[2])
    if spec[0] == 'hold':
        return hold_inside_policy(spec[1], spec[2], spec[3] if len(spec) > 3 else 250)
    raise ValueError(spec)


def norm_flags(fl):
    return {int(w): tuple(bool(x) for x in f) for w, f in (fl or {}).items()}


def run_params(P, scratch, params, tag):
    """one gated multi-worker run described by `params` (all JSON: replayable)"""
    rng = random.Random(params['sched_seed'])
    faults = {int(k): (v[0], v[1]) for k, v in (params.get('faults') or {}).items()}
    c = E.run_case(P, scratch, params['backend'], params['nworkers'], rng, flags=norm_flags(params.get('flags')), faults=faults,
                   kill_plan={int(w): g for w, g in (params.get('kill_plan') or {}).items()}, pre_done=params.get('pre_done', 0),
                   policy=make_policy(params.get('policy')), late={int(w): n for w, n in (params.get('late') or {}).items()},
                   max_tasks={int(w): n for w, n in (params.get('max_tasks') or {}).items()}, tag=tag, fs_gates=bool(params.get('fs_gates')),
                   operator=(tuple(params['operator']) if params.get('operator') else None))
    return c


_tagc = [0]


def newtag():
    _tagc[0] += 1
    return 't%d' % _tagc[0]


def faultfree_monitors(run, drv, P, scratch, params, c, do_rerun=True, do_top=True):
    """monitors shared by C01/C02/C03 on a run without faults"""
    ok = True
    for w, r in c.results.items():
        if r != ('ret', False) and not (params.get('max_tasks') and r == ('SystemExit', 0)):
            fail_case(run, 'worker-ended-abnormally', 'worker %d ended with %s in a fault-free run' % (w, r), P, params)
            ok = False
    early = bool(params.get('max_tasks'))
    ok &= check_values_complete(run, P, c, params, expect_complete=not early)
    ov = E.monitor_overlap(P, c)
    for t, why in ov[:2]:
        fail_case(run, 'overlap', 'task %d (%s) executed concurrently: %s' % (t, P['info'][t]['name'], why), P, params)
    bg = E.begins(c.trace)
    for t in range(P['n']):
        n = len(bg.get(t, []))
        exp = 0 if t in c.res0 else 1
        if n > exp or (n < exp and not early):
            fail_case(run, 'not-exactly-once', 'task %d (%s) was started %d times by workers %s (expected %d)' % (t, P['info'][t]['name'], n, [w for _, w in bg.get(t, [])], exp), P, params)
            ok = False
    for t, name, w, pos, missing in E.monitor_deps(P, c)[:2]:
        fail_case(run, 'started-before-dependency', 'task %d (%s) was started by worker %d (event %d) while the tasks %s it reads have no stored result' % (t, name, w, pos, missing), P, params)
        ok = False
    for fname, k, got, exp in E.monitor_args(P, c)[:2]:
        fail_case(run, 'wrong-arguments', '%s(k=%s) received %s, the stored results give %s' % (fname, k, got[:200], exp[:200]), P, params)
        ok = False
    if c.locks:
        fail_case(run, 'lock-left', 'locks left after a fault-free run: %s' % c.locks, P, params)
        ok = False
    model_check(run, drv, P, c, 'fault-free run', params)
    if do_top and not early:
        ok &= top_values_check(run, P, c, params)
    if do_rerun and not early:
        rng2 = random.Random(params['sched_seed'] + 17)
        trace2, results2, _ = second_execute(P, c.backend, 1 + params['sched_seed'] % 2, rng2, P['index'], flags=norm_flags(params.get('flags')))
        if any(e[0] in ('begin', 'dump') for e in trace2):
            fail_case(run, 'rerun-executes', 'a second execute ran/stored tasks %s although everything was complete' % sorted({e[2] for e in trace2 if e[0] in ('begin', 'dump')}), P, params)
            ok = False
        final2, _ = final_state(P, c.backend)
        if final2 != c.final:
            fail_case(run, 'rerun-changes-values', 'a second execute changed stored values', P, params)
            ok = False
        run.count('second_executes')
    return ok
