"""Exhaustive behavioural table of the real status classifier (`jug.subcommands.status.update_status`)."""
import itertools

STATI = ['unknown', 'waiting', 'ready', 'running', 'failed', 'finished']


def rows():
    import jug.subcommands.status as st
    out = []
    h = [b'h0', b'h1', b'h2']
    for deps in ([], [0], [1], [0, 1]):
        for res in itertools.product([False, True], repeat=3):
            for lock in ('free', 'held', 'failed'):
                for prev2 in STATI:
                    for prevd in itertools.product(['unknown', 'finished'], repeat=2):
                        # statuses the cache may hold for the dependencies: finished or anything else (only `finished` is consulted)
                        class L:
                            def __init__(self, n):
                                self.n = n

                            def is_locked(self):
                                return self.n == h[2] and lock != 'free'

                            def is_failed(self):
                                return self.n == h[2] and lock == 'failed'

                        class S:
                            def list(self):
                                return [h[i] for i in range(3) if res[i]]

                            def listlocks(self):
                                return [h[2]] if lock != 'free' else []

                            def can_load(self, n):
                                return res[h.index(n)]

                            def getlock(self, n):
                                return L(n)
                        ht = [(0, 'd0', h[0], prevd[0]), (1, 'd1', h[1], prevd[1]), (2, 't', h[2], prev2)]
                        d = {0: [], 1: [], 2: list(deps)}
                        ts, dirty = st.update_status(S(), ht, d, {})
                        new2 = dirty.get(2, prev2)
                        out.append((deps, res, lock, [prevd[0], prevd[1], prev2], new2))
    return out


def emit(rs):
    b = lambda x: 'true' if x else 'false'
    lines = ['namespace Jug.Generated.Status', 'structure Row where', '  deps : List Nat', '  res : List Bool', '  lock : String', '  prev : List String', '  out : String', '',
             '/-- new status of task 2 computed by the real update_status for every combination of: its dependencies among {0,1}, results present, its lock, cached statuses -/',
             'def table : List Row := [']
    lines.append(',\n'.join('  ⟨[%s], [%s], "%s", [%s], "%s"⟩' % (', '.join(map(str, d)), ', '.join(b(x) for x in r), l, ', '.join('"%s"' % p for p in pv), o) for d, r, l, pv, o in rs))
    lines.append(']')
    lines.append('end Jug.Generated.Status')
    return '\n'.join(lines) + '\n'
