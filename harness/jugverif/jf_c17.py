"""module-level functions used by the C17 harness (TaskGenerator-wrapped ones must be importable by name)"""
from jug import TaskGenerator

CALLS = []


def wrap(x):
    CALLS.append(x)
    return [x]


def cat(a, b):
    return a + b


def f21(x):
    CALLS.append(x)
    return 2 * x + 1


def mul(a, b):
    CALLS.append((a, b))
    return a * b


def star(*args):
    CALLS.append(tuple(int(a) for a in args))
    return [int(a) for a in args]


@TaskGenerator
def tg_wrap(x):
    CALLS.append(x)
    return [x]


@TaskGenerator
def tg_cat(a, b):
    return a + b


@TaskGenerator
def tg_f21(x):
    CALLS.append(x)
    return 2 * x + 1
