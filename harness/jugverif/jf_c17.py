"""module-level functions used by the C17 harness (TaskGenerator-wrapped ones must be importable by name)"""
from jug import TaskGenerator

CALLS = []


def wrap(x):
    CALLS.append(x)
    return [x]


def cat(a, b):
    return a + b


def f21(x):
    CALLS.append(x)
    return 2 * x + 1


def mul(a, b):
    CALLS.append((a, b))
    return a * b


def star(*args):
    CALLS.append(tuple(int(a) for a in args))
    return [int(a) for a in args]


@TaskGenerator
def tg_wrap(x):
    CALLS.append(x)
    return [x]


@TaskGenerator
def tg_cat(a, b):
    return a + b


@TaskGenerator
def tg_f21(x):
    CALLS.append(x)
    return 2 * x + 1


# ---- value universe with None / falsy results, and reducers for which None is not neutral
def opt3(x):
    CALLS.append(x)
    return None if x % 3 == 0 else x


def falsy(x):
    CALLS.append(x)
    return [None, 0, '', (), False, 0.0][x % 6]


def boxed(x):
    CALLS.append(x)
    return None if x % 4 == 1 else (x,)


def allornone(a, b):
    """associative; None is absorbing, not neutral"""
    if a is None or b is None:
        return None
    return a + b


def first(a, b):
    return a


def last(a, b):
    return b


def pairup(a, b):
    """associative on strings; shows every operand, None included"""
    return '%s,%s' % (a, b)


def g3(x):
    CALLS.append(('g', x))
    return 3 * x + 2


@TaskGenerator
def tg_g3(x):
    CALLS.append(('g', x))
    return 3 * x + 2


@TaskGenerator
def tg_opt3(x):
    CALLS.append(x)
    return None if x % 3 == 0 else x


@TaskGenerator
def tg_allornone(a, b):
    if a is None or b is None:
        return None
    return a + b
