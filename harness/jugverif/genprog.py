"""Generator of jugfiles together with their plain-Python twins.

A program is a list of assignment statements over the library of jugverif.lib. The same text is
 * loaded by jug (names bound by lib.jug_namespace(): TaskGenerators, jug.mapreduce, tasklets ...), and
 * executed as ordinary Python (names bound by lib.plain_namespace(): the raw functions, list comprehensions ...),
which is literally "the same program text evaluated as ordinary nested Python function calls" (C01).
While generating, every statement is evaluated in the plain namespace, so the generator knows the actual values
and can pick valid indices, slices and task-valued indices.
"""
from jugverif import lib

HEADER = 'from jugverif.lib import jug_namespace as _ns\nglobals().update(_ns())\n'


class Gen:
    def __init__(self, rng, ntasks=8, kinds=None):
        self.rng = rng
        self.lines = []
        self.vars = []          # (name, value, kind)
        self.k = 0
        self.pns = lib.plain_namespace()
        self.embed = {}         # embedding kinds used
        self.ntasks = ntasks
        self.kinds = kinds

    # ---- helpers
    def newk(self):
        self.k += 1
        return self.k

    def note(self, kind):
        self.embed[kind] = self.embed.get(kind, 0) + 1

    def emit(self, targets, expr, kind):
        line = '%s = %s' % (', '.join(targets), expr)
        exec(line, self.pns)
        for t in targets:
            self.vars.append((t, self.pns[t], kind))
        self.lines.append(line)

    def small(self):
        return [v for v in self.vars if len(lib.canon(v[1])) < 160]

    def literal(self):
        r = self.rng
        if r.random() < 0.15:
            # container *subclasses* holding plain values: plain Python passes them through unchanged
            self.note('container-subclass-literal')
            return r.choice(['Pt(%d, %d)' % (r.randint(0, 5), r.randint(0, 5)), 'OD(a=%d)' % r.randint(0, 5), 'LL([%d, %d])' % (r.randint(0, 5), r.randint(0, 5))])
        return r.choice(['%d' % r.randint(0, 9), repr(r.choice(['a', 'bc', ''])), '[%d, %d]' % (r.randint(0, 5), r.randint(0, 5)), 'None', '(%d,)' % r.randint(0, 3)])

    def arg(self, depth=2):
        """an argument expression embedding earlier variables in some way"""
        r = self.rng
        cands = self.small()
        if not cands or r.random() < 0.12:
            c = r.random()
            if c < 0.8:
                return self.literal()
            if c < 0.9:
                self.note('CustomHash')
                return 'CustomHash(%s, hash_one)' % self.literal()
            self.note('NoHash')
            return 'NoHash(%s)' % self.literal()
        c = r.random()
        if depth > 1 and c < 0.07:
            # a task only at nesting depth >= 2 (the outer container holds no task directly)
            self.note('container:deep')
            inner = self.arg(0)
            return r.choice(['[[%s, 1], 2]', '([%s],)', '[(%s, 0)]', "[{'k': %s}]", "{'k': [[%s]]}", '((%s,), [3])', '[[[%s]]]', "[('a', [%s, None])]"]) % inner
        if depth > 0 and c < 0.22:
            kind = r.choice(['list', 'tuple', 'dict', 'nested'])
            self.note('container:' + kind)
            if kind == 'list':
                return '[' + ', '.join(self.arg(depth - 1) for _ in range(r.randint(1, 3))) + ']'
            if kind == 'tuple':
                return '(' + ', '.join(self.arg(depth - 1) for _ in range(r.randint(1, 2))) + ',)'
            if kind == 'dict':
                return '{' + ', '.join('%r: %s' % (k, self.arg(depth - 1)) for k in r.sample(['k', 'x', 'y'], r.randint(1, 2))) + '}'
            return '{%r: [%s, (%s,)]}' % ('n', self.arg(depth - 1), self.arg(depth - 1))
        special = [v for v in cands if v[2] in ('mapped', 'tasklist')]
        if special and r.random() < 0.3:
            name, val, kind = r.choice(special)
        else:
            name, val, kind = r.choice(cands)
        return self.view(name, val, kind, 2)

    def view(self, name, val, kind, depth):
        """the variable itself or a tasklet / slice / task-indexed view of it (valid for its actual value)"""
        r = self.rng
        if kind == 'tasklist':
            # a plain python list of tasks/tasklets (map_step=1, currymap, iteratetask list)
            if val and r.random() < 0.6:
                i = r.randrange(len(val))
                self.note('tasklist-item')
                return '%s[%d]' % (name, i)
            self.note('tasklist-whole')
            return name
        if kind == 'mapped':
            c = r.random()
            if val and c < 0.35:
                self.note('mapped-item')
                return '%s[%d]' % (name, r.randrange(len(val)))
            if c < 0.7:
                a = r.choice([None, 0, 1, 2, -1, -3, len(val)])
                b = r.choice([None, 1, 3, 5, -1, len(val) + 1])
                st = r.choice([None, None, 1, 2, -1, -2])
                self.note('mapped-slice')
                if st is not None and st < 0:
                    self.note('mapped-slice-neg')
                sl = '%s:%s%s' % ('' if a is None else a, '' if b is None else b, '' if st is None else ':%d' % st)
                return '%s[%s]' % (name, sl)
            self.note('mapped-whole')
            return name
        if depth > 0 and isinstance(val, (list, tuple)) and len(val) > 0 and r.random() < 0.55:
            c = r.random()
            if c < 0.45:
                i = r.randrange(-len(val), len(val))
                self.note('item')
                e = '%s[%d]' % (name, i)
                sub = val[i]
                if isinstance(sub, (list, tuple, dict)) and sub and r.random() < 0.4:
                    self.note('tasklet-of-tasklet')
                    return self.view(e, sub, 'tasklet', depth - 1)
                return e
            if c < 0.7:
                a, b = sorted([r.randint(0, len(val)), r.randint(0, len(val))])
                self.note('slice')
                return '%s[%d:%d]' % (name, a, b)
            # task-valued index
            ixs = [v for v in self.vars if v[2] == 'task' and isinstance(v[1], int) and not isinstance(v[1], bool) and 0 <= v[1] < len(val) and v[0] != name]
            if ixs:
                u = r.choice(ixs)
                self.note('task-valued-index')
                return '%s[%s]' % (name, u[0])
            self.note('item')
            return '%s[%d]' % (name, r.randrange(len(val)))
        if depth > 0 and isinstance(val, dict) and val and r.random() < 0.5:
            key = r.choice(sorted(val, key=repr))
            self.note('dict-key')
            e = '%s[%r]' % (name, key)
            sub = val[key]
            if isinstance(sub, (list, tuple)) and sub and r.random() < 0.4:
                self.note('tasklet-of-tasklet')
                return self.view(e, sub, 'tasklet', depth - 1)
            return e
        self.note('direct')
        return name

    # ---- statements
    def statement(self):
        r = self.rng
        n = len(self.vars)
        v = 'v%d' % n
        kinds = self.kinds or ['mk', 'mk', 'const', 'idx', 'pair', 'add', 'add', 'use', 'use', 'use', 'mkdict', 'inc', 'jmap', 'jmap1', 'mapreduce',
                               'jreduce', 'currymap', 'identity', 'iteratetask', 'pair2', 'arr', 'asq', 'nil']
        if n < 2:
            kinds = ['mk', 'const', 'mkdict']
        kind = r.choice(kinds)
        k = self.newk()
        if kind == 'mk':
            self.emit([v], 'mk(%d, %d)' % (k, r.randint(1, 5)), 'task')
        elif kind == 'const':
            self.emit([v], 'const(%d)' % k, 'task')
        elif kind == 'idx':
            self.emit([v], 'idx(%d, %d)' % (k, r.randint(1, 4)), 'task')
        elif kind == 'pair':
            self.emit([v], 'pair(%d, %s, %s)' % (k, self.arg(), self.arg()), 'task')
        elif kind == 'add':
            self.emit([v], 'add(%d, %s, %s)' % (k, self.arg(), self.arg()), 'task')
        elif kind == 'nil':
            self.note('none-result')
            self.emit([v], 'nil(%d)' % k, 'task')
        elif kind == 'arr':
            self.note('numpy-result')
            self.emit([v], 'arr(%d, %d)' % (k, r.randint(1, 4)), 'task')
        elif kind == 'asq':
            arrs = [x for x in self.vars if x[2] == 'task' and type(x[1]).__module__ == 'numpy']
            self.emit([v], 'asq(%d, %s)' % (k, r.choice(arrs)[0] if arrs and r.random() < 0.8 else self.arg()), 'task')
        elif kind == 'inc':
            self.emit([v], 'inc(%d, %s)' % (k, self.arg()), 'task')
        elif kind == 'mkdict':
            self.emit([v], 'mkdict(%d, %s)' % (k, self.arg(1)), 'task')
        elif kind == 'use':
            self.note('keyword')
            kws = ', '.join('%s=%s' % (kw, self.arg(1)) for kw in r.sample(['kw', 'other', 'z'], r.randint(0, 2)))
            self.emit([v], 'use(%d, %s%s)' % (k, self.arg(), (', ' + kws) if kws else ''), 'task')
        elif kind in ('jmap', 'jmap1'):
            step = 1 if kind == 'jmap1' else r.randint(2, 4)
            m = r.randint(0, 9)
            if r.random() < 0.3 and self.small():
                ints = [x for x in self.vars if x[2] == 'task' and isinstance(x[1], int)]
                seq = '[' + ', '.join([r.choice(ints)[0] if ints and r.random() < 0.5 else str(r.randint(0, 5)) for _ in range(m)]) + ']'
                self.note('map-over-tasks')
            else:
                seq = 'list(range(%d, %d))' % (k, k + m)
            self.emit([v], 'jmap(dbl, %s, map_step=%d)' % (seq, step), 'tasklist' if step == 1 else 'mapped')
        elif kind == 'mapreduce':
            m = r.randint(0, 11)
            self.emit([v], 'mapreduce(cat, wrap, list(range(%d, %d)), map_step=%d, reduce_step=%d)' % (k, k + m, r.randint(1, 4), r.randint(2, 4)), 'task')
        elif kind == 'jreduce':
            m = r.randint(1, 9)
            self.emit([v], 'jreduce(cat, [(%d + i,) for i in range(%d)], reduce_step=%d)' % (k, m, r.randint(2, 4)), 'task')
        elif kind == 'currymap':
            m = r.randint(0, 6)
            self.emit([v], 'currymap(mul, [(i, i + %d) for i in range(%d)], map_step=%d)' % (k, m, r.randint(1, 3)), 'tasklist')
        elif kind == 'identity':
            self.emit([v], 'identity([%s, %s])' % (self.arg(1), self.arg(1)), 'task')
        elif kind == 'iteratetask':
            cands = [x for x in self.vars if x[2] == 'task' and isinstance(x[1], (list, tuple)) and len(x[1]) >= 2]
            if not cands:
                return self.statement()
            x = r.choice(cands)
            self.note('iteratetask')
            self.emit([v, 'v%d' % (n + 1)], 'iteratetask(%s, 2)' % x[0], 'tasklet')
        elif kind == 'pair2':
            self.note('return_tuple')
            self.emit([v, 'v%d' % (n + 1), 'v%d' % (n + 2)], 'pair2(%d, %s, %s)' % (k, self.arg(1), self.arg(1)), 'tasklet')

    def program(self):
        while len(self.vars) < self.ntasks:
            self.statement()
        return Program(HEADER + '\n'.join(self.lines) + '\n', [v[0] for v in self.vars], {v[0]: v[1] for v in self.vars}, dict(self.embed))


class Program:
    def __init__(self, text, varnames, refvalues, embed):
        self.text = text
        self.varnames = varnames
        self.refvalues = refvalues      # computed while generating (plain namespace)
        self.embed = embed

    def plain_values(self):
        """execute the same statements as plain Python, from scratch (the reference of C01)"""
        ns = lib.plain_namespace()
        body = self.text[len(HEADER):]
        exec(compile(body, '<plain twin>', 'exec'), ns)
        return {v: ns[v] for v in self.varnames}


RARE = ['task-valued-index', 'mapped-slice', 'mapped-slice-neg', 'container:deep', 'mapped-item', 'mapped-whole', 'tasklet-of-tasklet', 'tasklist-item', 'tasklist-whole', 'iteratetask',
        'return_tuple', 'map-over-tasks', 'container:nested', 'dict-key', 'slice', 'keyword', 'container:dict', 'container:tuple']


def generate(rng, ntasks=8, kinds=None, want=None):
    """want: an embedding kind the program must contain (rejection sampling; cheap)"""
    for _ in range(60):
        p = Gen(rng, ntasks, kinds).program()
        if want is None or p.embed.get(want):
            return p
    return p


# ------------------------------------------------------------------------------------------------ single-link programs
# every way a consumer can be linked to a producer, as the ONLY link between them: a dependency that is lost for one embedding
# kind (not reported, not waited for, not invalidated, not resolved) cannot hide behind a second link
LINKS = [
    ('direct', 'a'), ('item', 'a[1]'), ('neg-item', 'a[-1]'), ('slice', 'a[1:3]'), ('task-index', 'a[i]'), ('item-of-item', 'p[0][1]'),
    ('task-index-inner', 'q[i][0]'), ('tasklet-index', 'a[ix[0]]'), ('tasklet-index-slice', 'a[ix[0:1][0]]'), ('dict-key', 'd["l"]'), ('dict-key-item', 'd["l"][0]'),
    ('list', '[a, 1]'), ('tuple', '(a,)'), ('dict-value', "{'k': a}"), ('deep-list', '[[a, 1], 2]'), ('deep-tuple', '([a],)'), ('deep-mixed', "[{'k': (a, 0)}]"),
    ('deep-tasklet', '[[a[1]], 0]'), ('keyword', None),
    ('mapped-whole', 'm'), ('mapped-item', 'm[2]'), ('mapped-last', 'm[-1]'), ('mapped-slice', 'm[1:5]'), ('mapped-slice-step', 'm[::2]'),
    ('mapped-reversed', 'm[::-1]'), ('mapped-neg-stride', 'm[5:1:-2]'), ('mapped-neg-to-zero', 'm[4::-1]'), ('mapped-slice-of-slice', 'm[1:6][::-1]'),
    ('mapped-slice-item', 'm[1:6][2]'), ('mapped-in-list', '[m[::-1], 0]'), ('map1-item', 'm1[1]'), ('map1-whole', 'm1'),
    ('currymap-item', 'cm[1]'), ('mapreduce', 'mr'), ('reduce', 'rd'), ('identity', 'identity(a)'), ('identity-list', 'identity([a, 2])'),
    ('iteratetask', 'it0'), ('return-tuple', 'rt1'), ('customhash-plain', None), ('numpy', 'ar'), ('none', 'nl'),
    ('customhash-of-list', 'CustomHash([a, 1], hash_one)'), ('customhash-of-mapped-slice', 'CustomHash(m[1:5], hash_one)'), ('customhash-of-view', 'CustomHash(a[1], hash_one)'),
    ('identity-of-mapped', 'identity(m)'), ('identity-of-slice', 'identity(m[::2])'),
    ('fview-of-task', 'Tasklet(a, nsum)'), ('fview-of-mapped', 'Tasklet(m, nsum)'), ('fview-of-mapped-slice', 'Tasklet(m[1:6], nsum)'), ('fview-of-list', 'Tasklet([a[1], i], nsum)'),
    ('fview-of-dict', 'Tasklet({"k": a[2], "m": m[0]}, nsum)'), ('fview-of-fview', 'Tasklet(Tasklet([a, i], nsum), nsum)'),
    ('duplicate-producer', None), ('duplicate-consumer', None), ('sibling-consumers', None), ('typed-siblings', None),
]

SINGLE_PRELUDE = """a = mk(1, 5)
i = idx(31, 3)
p = pair(3, a, 7)
q = pair(4, [a, 1], [2, 3], )
d = mkdict(5, a)
m = jmap(dbl, list(range(1, 8)), map_step=3)
m1 = jmap(dbl, list(range(1, 4)), map_step=1)
cm = currymap(mul, [(j, j + 2) for j in range(3)], map_step=2)
mr = mapreduce(cat, wrap, list(range(1, 8)), map_step=2, reduce_step=3)
rd = jreduce(cat, [(10 + j,) for j in range(5)], reduce_step=2)
it0, it1 = iteratetask(a, 2)
rt0, rt1, rt2 = pair2(6, a, 1)
ix = pair(33, 1, 2)
ar = arr(8, 3)
nl = nil(9)
"""


class FixedProgram:
    def __init__(self, text, embed):
        self.text, self.embed = text, embed


def single_link_programs():
    out = []
    for kind, expr in LINKS:
        if kind == 'keyword':
            line = 'c = use(20, 0, kw=a)\ne = inc(21, c)\n'
        elif kind == 'duplicate-producer':
            # the same invocation written twice: two Task objects, one identifier; the consumer hangs on the second object
            line = 'a = mk(1, 5)\na2 = mk(1, 5)\nc = use(20, a2[1])\ne = inc(21, c)\n'
        elif kind == 'duplicate-consumer':
            line = 'a = mk(1, 5)\nc0 = use(20, a)\nc = use(20, a)\ne = inc(21, c)\n'
        elif kind == 'sibling-consumers':
            # consumers that differ ONLY in which element / view of the same task they receive (same function, no distinguishing key):
            # they are different invocations and must not take each other's results
            line = ('a = mk(1, 5)\nrt0, rt1, rt2 = pair2(6, a, 1)\nit0, it1 = iteratetask(a, 2)\n'
                    'q = pair(4, [a, 1], [2, 3])\n'
                    'c = [same(rt0), same(rt1), same(rt2), same(it0), same(it1), same(a[2]), same(a[3]), same(a[1:3]), same(a[2:4]), same(q[0][1]), same(q[1][1]), same(q[1][0])]\ne = use(21, c)\n')
        elif kind == 'typed-siblings':
            # the same function applied to arguments that are equal element by element but differ in a type somewhere (list / tuple, int / bool / float,
            # str / bytes, positional / keyword): different invocations with different values
            line = ('c = [same([1, 2]), same((1, 2)), same([[1, 2], [3, 4]]), same([(1, 2), (3, 4)]), same(([1, 2], [3, 4])), same(1), same(True), same(1.0), same("a"), same(b"a"), '
                    'same({"k": [1]}), same({"k": (1,)}), same(None), same(0), same(False), same([]), same(()), same({}), same([None]), same((None,)), same([0]), same([False]), same("1"), same([1]), same((1,)), same(np.arange(6).reshape(2, 3)), same(np.arange(6).reshape(3, 2).T), same(np.arange(6).reshape(2, 3).T), same(np.arange(6.0).reshape(2, 3)), same(np.arange(6)[::-1]), same(np.arange(12)[::2])]\n'
                    'kw = [use(40, 1), use(41, 0, kw=1), use(42, [1, 2]), use(43, (1, 2)), use(44, 0, kw=[1, 2]), use(45, 0, kw=(1, 2))]\ne = use(21, c)\n')
        elif kind == 'customhash-plain':
            line = 'c = use(20, CustomHash([1, 2], hash_one), other=NoHash(3))\ne = inc(21, c)\n'
        else:
            line = 'c = use(20, %s)\ne = inc(21, c)\n' % expr
        # only the producers the link (transitively) mentions, plus one unrelated task
        import re as _re
        plines = SINGLE_PRELUDE.strip().split('\n')
        needed = set(_re.findall(r'[A-Za-z_][A-Za-z_0-9]*', line))
        keep = [False] * len(plines)
        changed = True
        while changed:
            changed = False
            for j, pl in enumerate(plines):
                lhs, rhs = pl.split(' = ', 1)
                names = {x.strip() for x in lhs.split(',')}
                if not keep[j] and names & needed:
                    keep[j] = True
                    needed |= set(_re.findall(r'[A-Za-z_][A-Za-z_0-9]*', rhs))
                    changed = True
        if kind.startswith('duplicate') or kind in ('sibling-consumers', 'typed-siblings'):
            keep = [False] * len(plines)
        prelude = ''.join(pl + '\n' for j, pl in enumerate(plines) if keep[j]) + 'z = const(30)\n'
        out.append(FixedProgram(HEADER + prelude + line, {'single-link:' + kind: 1}))
    return out


# ------------------------------------------------------------------------------------------------ containers filled after the consumer exists
# A task may be handed a list / dict that the jugfile goes on filling with tasks afterwards (jug looks at the arguments when it needs them,
# not when the Task object is made). The dependent then precedes its dependencies in creation order. Plain Python would call the function
# at once, so these programs have no plain twin: they are judged by what each task really reads / receives in a cache-free sequential run.
LATE = [
    ('late-list', 'lst = []\nc = use(20, lst)\na = mk(1, 5)\nlst.append(a)\ne = inc(21, c)\n'),
    ('late-list-item', 'lst = [0]\nc = use(20, lst)\na = mk(1, 5)\nlst.append(a[1])\nlst.insert(0, a[2])\ne = inc(21, c)\n'),
    ('late-dict', 'dd = {}\nc = use(20, dd)\na = mk(1, 5)\ndd["k"] = a\ne = inc(21, c)\n'),
    ('late-keyword', 'lst = []\nc = use(20, 0, kw=lst)\na = mk(1, 5)\nlst.append(a)\ne = inc(21, c)\n'),
    ('late-nested', 'inner = []\nc = use(20, [inner, {"k": inner}])\na = mk(1, 5)\ni = idx(31, 3)\ninner.append(a[i])\ne = inc(21, c)\n'),
    ('late-chain', 'l1 = []\nl2 = []\nc = use(20, l1)\nd2 = use(22, [c, l2])\na = mk(1, 5)\nb = mk(2, 4)\nl2.append(b)\nl1.append(a)\ne = inc(21, d2)\n'),
    ('late-mapped', 'lst = []\nc = use(20, lst)\nm = jmap(dbl, list(range(1, 8)), map_step=3)\nlst.append(m[1:5])\nlst.append(m[2])\ne = inc(21, c)\n'),
]


def late_fill_programs():
    out = []
    for kind, body in LATE:
        fp = FixedProgram(HEADER + body + 'z = const(30)\n', {'late-fill:' + kind: 1})
        fp.late = True
        out.append(fp)
    return out
