"""task functions of the scripted jugfile used by the reload-loop correspondence (C14)"""


def work(i):
    return i


def blocked(i):
    return -i
