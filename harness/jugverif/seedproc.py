"""Separate interpreter processes with different string-hash seeds working on one store (C01, C02).

Two real `jug execute` worker processes (different PYTHONHASHSEED) run one jugfile on one file store; a third process (another seed)
runs execute again; a fourth reads `value()` of every top-level name; a fifth evaluates the same text as plain Python.
Monitors: every task function invoked exactly once over all processes (invocation log), the repeated execute invokes nothing,
every value equals the plain-Python value. The arguments are the kinds whose in-memory representation differs between interpreters:
sets / frozensets of strings and bytes, dictionaries with string keys, nestings of these, tuples of strings.
"""
import json
import os
import subprocess
import sys

from jugverif import core

BODY = '''
import os

def _log(name):
    with open(os.environ['JUGVERIF_CALLLOG'], 'a') as f:
        f.write(name + '\\n')

@TaskGenerator
def describe(tag, x):
    _log('describe ' + tag)
    def c(v):
        if isinstance(v, (set, frozenset)):
            return [type(v).__name__] + sorted(c(e) for e in v)
        if isinstance(v, dict):
            return ['dict'] + sorted([c(k), c(e)] for k, e in v.items())
        if isinstance(v, (list, tuple)):
            return [type(v).__name__] + [c(e) for e in v]
        return repr(v)
    return json_dumps(c(x))

@TaskGenerator
def join(tag, parts):
    _log('join ' + tag)
    return '|'.join(parts)

import json
json_dumps = lambda o: json.dumps(o, sort_keys=True)

words = ['alpha', 'beta', 'gamma', 'delta', 'epsilon', 'zeta', 'eta', 'theta']
a1 = describe('a1', set(words))
a2 = describe('a2', frozenset(words[:5]))
a3 = describe('a3', {w: i for i, w in enumerate(words)})
a4 = describe('a4', [set(words[:3]), frozenset(words[3:6]), {'k': set(words[5:])}])
a5 = describe('a5', {frozenset(words[:2]): 1, frozenset(words[2:5]): 2})
a6 = describe('a6', set((w, w.upper()) for w in words))
a7 = describe('a7', set(w.encode() for w in words))
a8 = describe('a8', {'outer': {'inner': set(words[:4])}, 'other': (frozenset(words[4:]), 'x')})
a9 = describe('a9', tuple(words))
a10 = describe('a10', set(range(20)))
j1 = join('j1', [a1, a2, a3])
j2 = join('j2', [a4, a5, a6, a7, a8])
j3 = join('j3', [j1, j2, a9, a10])
# a compound task computed in the same run as its consumers (one of the workers runs with --aggressive-unload)
def build(n):
    return join('b%d' % n, [describe('p%d' % n, set(words[:n])), a1])
cmp3 = CompoundTask(build, 3)
cmp5 = CompoundTask(build, 5)
j4 = join('j4', [cmp3, a2])
j5 = join('j5', [j4, cmp5, cmp3])
TOP = ['a1', 'a2', 'a3', 'a4', 'a5', 'a6', 'a7', 'a8', 'a9', 'a10', 'j1', 'j2', 'j3', 'cmp3', 'cmp5', 'j4', 'j5']
'''

NTASKS = 19

READ = '''
import sys, json
import jug, jug.task
from jug.backends.file_store import file_store
jug.task.Task.store = file_store(sys.argv[2])
store, space = jug.jug.init(sys.argv[1], sys.argv[2])
out = {}
for k in space['TOP']:
    t = space[k]
    out[k] = jug.task.value(t) if t.can_load() else None
print(json.dumps(out, sort_keys=True))
'''


def _env(seed, calllog):
    e = dict(os.environ)
    e['PYTHONPATH'] = core.REPO + os.pathsep + os.path.join(core.VERIF, 'harness')
    e['PYTHONHASHSEED'] = str(seed)
    e['JUGVERIF_CALLLOG'] = calllog
    e['HOME'] = '/nonexistent-home-for-jugverif'
    return e


def family(run, seeds=(11, 22, 33, 44)):
    one_family(run, seeds, single_aggressive=False)
    one_family(run, tuple(s_ + 100 for s_ in seeds), single_aggressive=True)


def one_family(run, seeds, single_aggressive):
    """single_aggressive: one worker only, with --aggressive-unload (nobody else can make up for what it leaves undone)"""
    d = core.scratch_dir('jugverif-seedproc-')
    try:
        jf = os.path.join(d, 'seedjf.py')
        with open(jf, 'w') as f:
            f.write('from jug import TaskGenerator, CompoundTask\n' + BODY)
        plainf = os.path.join(d, 'plain.py')
        with open(plainf, 'w') as f:
            f.write('TaskGenerator = lambda f: f\nCompoundTask = lambda f, *a, **k: f(*a, **k)\n' + BODY + '\nimport json as _j\nprint(_j.dumps({k: globals()[k] for k in TOP}, sort_keys=True))\n')
        jugdir = os.path.join(d, 'store')
        calllog = os.path.join(d, 'calls.log')
        plainlog = os.path.join(d, 'plaincalls.log')
        open(calllog, 'w').close()
        rp = {'kind': 'seedproc', 'seeds': list(seeds), 'single_worker_with_aggressive_unload': single_aggressive}
        core.CURRENT_INPUT.clear()
        core.CURRENT_INPUT.update({'family': 'separate interpreter processes with different PYTHONHASHSEED on one file store', 'jugfile': BODY})
        cmd = [sys.executable, '-c', 'from jug.jug import main; main()', 'execute', jf, '--jugdir', jugdir, '--nr-wait-cycles', '3', '--wait-cycle-time', '0' if single_aggressive else '1']
        ps = [subprocess.Popen(cmd + (['--aggressive-unload'] if (k_ == 1 or single_aggressive) else []), cwd=d, env=_env(s, calllog), stdout=subprocess.PIPE, stderr=subprocess.STDOUT, text=True)
              for k_, s in enumerate(seeds[:1] if single_aggressive else seeds[:2])]
        outs = [p.communicate(timeout=120)[0] for p in ps]
        for p, o, s in zip(ps, outs, seeds):
            if p.returncode != 0:
                run.fail('seedproc-execute-fails', 'jug execute (PYTHONHASHSEED=%s, one of two workers on one file store) exits %s: %s' % (s, p.returncode, o[-400:]), rp)
        calls1 = open(calllog).read().split('\n')[:-1]
        p3 = subprocess.run(cmd, cwd=d, env=_env(seeds[2], calllog), stdout=subprocess.PIPE, stderr=subprocess.STDOUT, text=True, timeout=120)
        calls2 = open(calllog).read().split('\n')[:-1]
        p4 = subprocess.run([sys.executable, '-c', READ, jf, jugdir], cwd=d, env=_env(seeds[3], plainlog), stdout=subprocess.PIPE, stderr=subprocess.PIPE, text=True, timeout=120)
        p5 = subprocess.run([sys.executable, plainf], cwd=d, env=_env(0, plainlog), stdout=subprocess.PIPE, stderr=subprocess.PIPE, text=True, timeout=120)
        if p5.returncode != 0:
            raise core.InfraError('plain twin of the seed-process family fails: ' + p5.stderr[-300:])
        run.case(('seedproc', single_aggressive) + tuple(seeds), nontrivial=True)
        run.count('seed_process_runs')
        dup = sorted({c for c in calls1 if calls1.count(c) > 1})
        if dup:
            run.fail('seedproc-not-once', 'two jug execute processes with different PYTHONHASHSEED (%s, %s) on one file store invoked %s more than once (%d invocations for %d tasks)'
                     % (seeds[0], seeds[1], dup[:4], len(calls1), NTASKS), rp)
        elif len(calls1) != NTASKS:
            run.fail('seedproc-incomplete', '%s invoked %d task functions, the jugfile defines %d tasks: %s' % ('one jug execute --aggressive-unload process' if single_aggressive else 'two jug execute processes', len(calls1), NTASKS, outs[0][-300:]), rp)
        if len(calls2) != len(calls1):
            run.fail('seedproc-rerun-executes', 'a further jug execute in a process with PYTHONHASHSEED=%s invoked %s again although every task had completed in the processes with seeds %s and %s '
                     '(the identifiers of tasks with set / dict arguments differ between interpreters)' % (seeds[2], calls2[len(calls1):][:5], seeds[0], seeds[1]), rp)
        if p4.returncode != 0:
            run.fail('seedproc-read-fails', 'reading the values in a process with PYTHONHASHSEED=%s fails: %s' % (seeds[3], p4.stderr[-400:]), rp)
        else:
            got, exp = json.loads(p4.stdout.strip().split('\n')[-1]), json.loads(p5.stdout.strip().split('\n')[-1])
            bad = sorted(k for k in exp if got.get(k) != exp[k])
            if bad:
                run.fail('seedproc-values', 'after execute by two processes (seeds %s, %s) a process with seed %s finds value(%s) = %r, plain Python gives %r'
                         % (seeds[0], seeds[1], seeds[3], bad[0], got.get(bad[0]), exp[bad[0]]), rp)
    finally:
        core.CURRENT_INPUT.clear()
        core.rm_rf(d)
