"""File-system primitive interposition for jug.backends.file_store (harness side, no in-tree hooks).

The module-level names file_store.py uses for file-system access (`os`, `path`, `exists`, `tempfile`, and an injected `open`)
are replaced by proxies that call `hook(prim, path, ...)` *before* performing the real operation on the real file system.
The hook can record, gate (block until a scheduler lets the thread go) or raise (simulated kill).
"""
import builtins
import os
import tempfile as _tempfile

PRIMS = ('exists', 'open', 'fdopen', 'unlink', 'utime', 'stat', 'rename', 'mkstemp', 'makedirs', 'fsync', 'close', 'listdir', 'write', 'flush', 'fclose', 'link', 'truncate')


class FileProxy:
    """wraps the file object returned by os.fdopen / open so that write/flush/close are visible"""

    def __init__(self, f, hook, name):
        self._f, self._hook, self._name = f, hook, name

    def write(self, b):
        self._hook('write', self._name, len(b))
        return self._f.write(b)

    def flush(self):
        self._hook('flush', self._name)
        return self._f.flush()

    def close(self):
        self._hook('fclose', self._name)
        return self._f.close()

    def truncate(self, *a):
        self._hook('truncate', self._name)
        return self._f.truncate(*a)

    def fileno(self):
        return self._f.fileno()

    def __enter__(self):
        return self

    def __exit__(self, *a):
        self.close()
        return False

    def __getattr__(self, n):
        return getattr(self._f, n)


import io


class TracedWriter(io.BufferedWriter):
    """a real buffered binary writer (NumPy keeps its direct-descriptor `tofile` path for it) whose write/flush/close are visible"""

    def __init__(self, raw, hook, name):
        super().__init__(raw)
        self._jv_hook, self._jv_name = hook, name

    def write(self, b):
        self._jv_hook('write', self._jv_name, len(memoryview(b).cast('B')))
        return super().write(b)

    def flush(self):
        if not self.closed:
            self._jv_hook('flush', self._jv_name)
        return super().flush()

    def close(self):
        if not self.closed:
            self._jv_hook('fclose', self._jv_name)
        return super().close()

    def truncate(self, *a):
        self._jv_hook('truncate', self._jv_name)
        return super().truncate(*a)


def install(hook, wrap_files=False, plain_proxy=False):
    """returns undo(). hook(prim, path, *extra) is called before each primitive."""
    import jug.backends.file_store as fs
    saved = {k: fs.__dict__.get(k) for k in ('exists', 'os', 'path', 'open', 'tempfile', 'dirname')}
    had_open = 'open' in fs.__dict__
    fdnames = {}

    class OsProxy:
        def __getattr__(self, n):
            return getattr(os, n)

        def open(self, p, flags, *a, **k):
            hook('open', p, flags)
            fd = os.open(p, flags, *a, **k)
            fdnames[fd] = p
            return fd

        def fdopen(self, fd, *a, **k):
            name = fdnames.get(fd, '<fd>')
            hook('fdopen', name)
            mode = a[0] if a else k.get('mode', 'r')
            if wrap_files and mode == 'wb' and not plain_proxy:
                return TracedWriter(io.FileIO(fd, 'wb'), hook, name)
            f = os.fdopen(fd, *a, **k)
            return FileProxy(f, hook, name) if wrap_files else f

        def unlink(self, p, *a, **k):
            hook('unlink', p)
            return os.unlink(p, *a, **k)
        remove = unlink

        def utime(self, p, times=None, **k):
            hook('utime', p, times)
            return os.utime(p, times, **k)

        def stat(self, p, *a, **k):
            hook('stat', p)
            return os.stat(p, *a, **k)

        def rename(self, a, b):
            hook('rename', b, a)
            return os.rename(a, b)
        replace = rename

        def link(self, a, b, **k):
            hook('link', b, a)
            return os.link(a, b, **k)

        def makedirs(self, p, *a, **k):
            hook('makedirs', p)
            return os.makedirs(p, *a, **k)

        def fsync(self, fd):
            hook('fsync', fdnames.get(fd, '<fd>'))
            return os.fsync(fd)

        def close(self, fd):
            hook('close', fdnames.pop(fd, '<fd>'))
            return os.close(fd)

        def listdir(self, p):
            hook('listdir', p)
            return os.listdir(p)

        def walk(self, *a, **k):
            return os.walk(*a, **k)

    class PathProxy:
        def __getattr__(self, n):
            return getattr(os.path, n)

        def exists(self, p):
            hook('exists', p)
            return os.path.exists(p)

    def g_exists(p):
        hook('exists', p)
        return os.path.exists(p)

    def g_open(p, mode='r', *a, **k):
        hook('open', p, mode)
        f = builtins.open(p, mode, *a, **k)
        return FileProxy(f, hook, p) if wrap_files else f

    class TmpProxy:
        def __getattr__(self, n):
            return getattr(_tempfile, n)

        def mkstemp(self, *a, **k):
            hook('mkstemp', a[2] if len(a) > 2 else k.get('dir', ''))
            fd, name = _tempfile.mkstemp(*a, **k)
            fdnames[fd] = name
            return fd, name
    fs.exists = g_exists
    fs.os = OsProxy()
    fs.path = PathProxy()
    fs.open = g_open
    fs.tempfile = TmpProxy()

    def undo():
        for k, v in saved.items():
            if k == 'open' and not had_open:
                fs.__dict__.pop('open', None)
            elif v is not None:
                setattr(fs, k, v)
    return undo
