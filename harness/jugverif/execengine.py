"""Engine shared by the checks of the execution group (C01 C02 C03 C11 C12 C13):
generate a program, analyse it sequentially, run it with several gated workers on a backend, replay the recorded history
through the Lean transition system (trace validation) and evaluate the property monitors on the real run."""
import json
import os
import random
import tempfile

import jug
import jug.task
import jug.jug

from jugverif import core, genprog, lib, sched, jugenv, fakeredis


def write_jugfile(scratch, text, tag='jf'):
    p = os.path.join(scratch, '%s.py' % tag)
    with open(p, 'w') as f:
        f.write(text)
    return p


class Backend:
    """one shared backend, several store objects (one per worker), as separate processes would have"""

    def __init__(self, kind, scratch, tag='b'):
        self.kind = kind
        self.dir = os.path.join(scratch, 'store-' + tag)
        self.shared = None
        if kind == 'dict':
            from jug.backends.dict_store import dict_store
            self.shared = dict_store()
        elif kind == 'redis':
            self.server = fakeredis.FakeServer()

    def store(self):
        if self.kind == 'dict':
            return self.shared
        if self.kind in ('file', 'filepack'):
            from jug.backends.file_store import file_store
            return file_store(self.dir)
        if self.kind == 'redis':
            return fakeredis.make_store(self.server)
        raise ValueError(self.kind)

    def locks(self):
        return sorted(bytes(k) if not isinstance(k, bytes) else k for k in self.store().listlocks())

    def tempfiles(self):
        if self.kind in ('file', 'filepack'):
            d = os.path.join(self.dir, 'tempfiles')
            return sorted(os.listdir(d)) if os.path.exists(d) else []
        return []


def prepare(rng, scratch, ntasks, kinds=None, want=None):
    """generate + analyse a program. Returns a dict describing it (self-contained: can be stored in a replay file)."""
    prog = genprog.generate(rng, ntasks, kinds, want)
    return analyse_text(prog.text, scratch, prog.embed)


def analyse_text(text, scratch, embed=None, plain_ok=True):
    path = write_jugfile(scratch, text)
    core.CURRENT_INPUT.clear()
    core.CURRENT_INPUT.update({'kind': 'jugfile', 'text': text, 'doing': 'cache-free sequential run of the generated jugfile with the real Task.run / value()'})
    del lib.CALLS[:]
    lib.FAULTS.clear()
    from jug.backends.dict_store import dict_store
    index, order, info, top, _ = sched.analyse(path, dict_store)
    seq_calls = list(lib.CALLS)
    # plain twin
    del lib.CALLS[:]
    if plain_ok:
        ns = lib.plain_namespace()
        exec(compile(text[len(genprog.HEADER):], '<plain twin>', 'exec'), ns)
        plain = {k: ns[k] for k in top}
        plain_calls = list(lib.CALLS)
    else:
        # a program that goes on filling a container after handing it to a task has no plain twin (Python would call the function at once):
        # the reference is the cache-free sequential run itself
        plain = dict(top)
        plain_calls = seq_calls
    del lib.CALLS[:]
    # reference arguments per task key k: what the function receives when the same text runs as plain Python (the tasklet operations
    # applied to the values of the producers); the cache-free sequential jug run must hand over the same arguments
    ref_args = {}
    ks = {}
    for c in plain_calls:
        if c[0] == 'B':
            ref_args[c[2]] = c[4]
    seq_arg_diffs = [(c[1], c[2], c[4], ref_args[c[2]]) for c in seq_calls if c[0] == 'B' and c[2] in ref_args and c[4] != ref_args[c[2]]]
    # which model task is the function with key k ? (the task whose name matches and whose first argument is k)
    for i, t in enumerate(order):
        if t.name in ('jugverif.lib.' + n for n in lib.RAW) and t.args and isinstance(t.args[0], int) and not isinstance(t.args[0], bool):
            ks[i] = t.args[0]
    return {'text': text, 'path': path, 'index': index, 'order': order, 'info': info, 'top': top, 'plain': plain, 'ref_args': ref_args, 'seq_arg_diffs': seq_arg_diffs, 'ks': ks,
            'embed': embed or {}, 'n': len(order)}


def closure_reads(info, roots, reported=True):
    """tasks that (transitively) depend on a task in roots: by the results they really read and - since jug may wait conservatively,
    e.g. a slice of a mapped sequence waits for all its blocks - by what Task.dependencies() reports"""
    bad = set(roots)
    changed = True
    while changed:
        changed = False
        for i, inf in enumerate(info):
            if i not in bad and any(d in bad for d in (set(inf['reads']) | (set(inf['reported']) if reported else set()))):
                bad.add(i)
                changed = True
    return bad


def to_model_events(trace):
    evs = []
    for e in trace:
        k = e[0]
        if k == 'begin':
            evs.append(['begin', e[1], e[2]])
        elif k in ('canLoad', 'lock', 'load', 'endOk', 'dump'):
            evs.append([k] + list(e[1:]))
        elif k in ('endExc', 'unlock', 'markFailed'):
            evs.append([k, e[1], e[2]])
        elif k == 'stop':
            evs.append(['stop', e[1], e[2]] + list(e[3:]))
        elif k == 'exit':
            evs.append(['exit', e[1], e[2]])
        elif k == 'crash':
            evs.append(['crash', e[1]])
        elif k in ('removeLocks', 'removeFailedLocks'):
            evs.append([k])
        elif k == 'lockAttempt':
            pass
        else:
            raise ValueError(e)
    return evs


def validate_trace(drv, P, trace, flags, res0, nworkers):
    """replay through the Lean model. Returns (ok, detail)"""
    req = {'op': 'exec', 'n': P['n'], 'deps': [inf['reads'] for inf in P['info']], 'ref': [inf['value'] for inf in P['info']],
           'sdeps': [sorted(set(inf['reads']) | set(inf['reported'])) for inf in P['info']],
           'flags': [[bool((flags or {}).get(w, (False, False, False))[0]), bool((flags or {}).get(w, (False, False, False))[1])] for w in range(nworkers)],
           'res0': [res0.get(i) for i in range(P['n'])], 'events': to_model_events(trace)}
    ans = drv.ask(req)
    return ans


class Case:
    """one multi-worker run and everything observed about it"""
    pass


def run_case(P, scratch, backend_kind, nworkers, rng, flags=None, faults=None, kill_plan=None, pre_done=0, policy=None, late=None, max_tasks=None, tag='c', fs_gates=False, operator=None):
    """pre_done: number of leading tasks (creation order) already computed before the workers start (for filepack: and packed)"""
    c = Case()
    be = Backend(backend_kind, scratch, tag)
    c.backend = be
    # prior state
    res0 = {}
    if pre_done:
        s0 = be.store()
        tasks, _ = sched.load_jugfile(P['path'], s0)
        index, order = sched.index_tasks(tasks, P['index'])
        for t in tasks:
            t.store = s0
        for i, t in enumerate(order[:pre_done]):
            t.run()
            res0[i] = P['info'][i]['value']
        if backend_kind == 'filepack':
            s0.update_pack()
        for t in tasks:
            t.unload()
    del lib.CALLS[:]
    lib.FAULTS.clear()
    for k, plan in (faults or {}).items():
        lib.FAULTS[k] = plan
    if operator is not None:
        # an operator command runs once, at the moment `holder` is inside the function of `task` (its lock held, nothing published yet):
        # ('cleanup-keep-locks' | 'cleanup-failed-only', holder, task)
        what, holder, task = operator
        inner, fired = policy, {'done': False}

        def policy(s_, runnable, inner=inner):
            pend = s_.waiting.get(holder)
            if not fired['done'] and pend is not None and pend[0] == 'endOk' and pend[1] == task and what.startswith('remove-result:'):
                # another process invalidates one result (a different store object on the same data) - once that result exists
                victim = int(what.split(':')[1])
                hv = [h_ for h_, i_ in P['index'].items() if i_ == victim][0]
                st = be.store()
                if st.can_load(hv):
                    fired['done'] = True
                    st.remove(hv)
                    lib.CALLS.append(('R', 'remove-result', victim, None, ''))
            elif not fired['done'] and pend is not None and pend[0] == 'endOk' and pend[1] == task and what == 'pack-interrupted':
                # somebody runs `jug pack` meanwhile and that process dies just before the new pack file is put in place (the last step of update_pack):
                # nothing that was finished may be lost - the workers must not compute it again
                fired['done'] = True
                import jug.backends.file_store as _fsmod

                class _Died(BaseException):
                    pass

                _pk = os.path.join('packs', 'jugpack')
                _saved = {}

                def _mk(real):
                    def _die(a, b, *rest, **kw):
                        if str(b).endswith(_pk):
                            raise _Died()
                        return real(a, b, *rest, **kw)
                    return _die
                # however the new pack file is put in place (rename, replace, link): that step is where the process dies
                for _nm in ('rename', 'replace', 'link'):
                    _saved[_nm] = getattr(_fsmod.os, _nm)
                    setattr(_fsmod.os, _nm, _mk(_saved[_nm]))
                import shutil as _sh
                _backup = be.dir + '.before-pack'
                _sh.copytree(be.dir, _backup, symlinks=True)
                try:
                    be.store().update_pack()
                    # the pack was completed by a step this harness does not know: that is another scenario (a finished `jug pack` next to running workers,
                    # which the property does not speak about) - put the store back as it was and go on
                    _sh.rmtree(be.dir)
                    _sh.copytree(_backup, be.dir, symlinks=True)
                    lib.CALLS.append(('R', 'pack-not-interrupted', None, None, ''))
                except _Died:
                    lib.CALLS.append(('R', 'pack-interrupted', None, None, ''))
                finally:
                    for _nm, _f in _saved.items():
                        setattr(_fsmod.os, _nm, _f)
                    _sh.rmtree(_backup, ignore_errors=True)
            elif not fired['done'] and pend is not None and pend[0] == 'endOk' and pend[1] == task:
                fired['done'] = True
                st = be.store()
                saved_store = jug.task.Task.store
                tasks_, _ = sched.load_jugfile(P['path'], st)
                try:
                    if what == 'cleanup-keep-locks':
                        st.cleanup(tasks_, keeplocks=True)
                    else:
                        for nm in st.listlocks():
                            lk = st.getlock(nm)
                            if lk.is_failed():
                                lk.release()
                finally:
                    jug.task.Task.store = saved_store
            return inner(s_, runnable) if inner is not None else None
    trace, results, loaded = sched.run_workers(P['path'], lambda w: be.store(), nworkers, rng, flags=flags, policy=policy, kill_plan=kill_plan,
                                               index=P['index'], late=late, max_tasks=max_tasks, fs_gates=fs_gates and backend_kind in ('file', 'filepack'))
    c.trace, c.results, c.res0, c.calls = trace, results, res0, list(lib.CALLS)
    c.gates = dict(sched.CURRENT.gates) if sched.CURRENT is not None else {}
    lib.FAULTS.clear()
    # final shared state as a fresh client sees it
    fs = be.store()
    c.final = {}
    for h, i in P['index'].items():
        if fs.can_load(h):
            try:
                c.final[i] = lib.canon(fs.load(h))
            except Exception as e:
                c.final[i] = 'LOAD-ERROR %s: %s' % (type(e).__name__, e)
    c.locks = {}
    for h, i in P['index'].items():
        l = fs.getlock(h)
        if l.is_locked():
            c.locks[i] = 'failed' if l.is_failed() else 'held'
    c.tempfiles = be.tempfiles()
    c.flags, c.nworkers = flags or {}, nworkers
    return c


# ------------------------------------------------------------------------------------------- monitors on the real run

def begins(trace):
    out = {}
    for pos, e in enumerate(trace):
        if e[0] == 'begin':
            out.setdefault(e[2], []).append((pos, e[1]))
    return out


def monitor_values(P, c):
    """C01: every stored result equals the sequential value"""
    bad = []
    for i, v in c.final.items():
        if v != P['info'][i]['value']:
            bad.append((i, P['info'][i]['name'], v, P['info'][i]['value']))
    return bad


def monitor_overlap(P, c):
    """C02: executions of one task never overlap; returns list of (task, details)"""
    bad = []
    active = {}
    for pos, e in enumerate(c.trace):
        if e[0] == 'begin':
            t = e[2]
            if t in active:
                bad.append((t, 'begun by worker %d at event %d while worker %d is still inside it (since event %d)' % (e[1], pos, active[t][0], active[t][1])))
            active[t] = (e[1], pos)
        elif e[0] in ('endOk', 'endExc') and active.get(e[2], (None,))[0] == e[1]:
            del active[e[2]]
        elif e[0] == 'stop' or e[0] == 'crash':
            for t in [t for t, (w, _) in active.items() if w == e[1]]:
                del active[t]
    return bad


def monitor_deps(P, c):
    """C03: at every begin(t) every task t really reads has a stored result; returns list"""
    bad = []
    have = set(c.res0)
    for pos, e in enumerate(c.trace):
        if e[0] == 'dump':
            have.add(e[2])
        elif e[0] == 'begin':
            missing = [d for d in P['info'][e[2]]['reads'] if d not in have]
            if missing:
                bad.append((e[2], P['info'][e[2]]['name'], e[1], pos, missing))
    return bad


def monitor_args(P, c):
    """C03: the arguments each library function received are those of the sequential run"""
    bad = []
    for call in c.calls:
        if call[0] == 'B' and call[2] in P['ref_args'] and call[4] != P['ref_args'][call[2]]:
            bad.append((call[1], call[2], call[4], P['ref_args'][call[2]]))
    return bad
