"""Task-function library shared by generated jugfiles and their plain-Python twins.

Every function is deterministic, total on the value universe (ints, strings, lists, tuples, dicts) and side-effect free,
apart from the harness's own call log (thread-local worker id, begin/end, arguments) and the fault plan
(raise an Exception / SystemExit / KeyboardInterrupt at a chosen invocation).
"""
import threading

TL = threading.local()          # TL.w = worker id of the calling thread
CALLS = []                      # (kind, fname, k, worker, detail)
FAULTS = {}                     # k -> ('exc'|'sysexit'|'kbdint', remaining_count or None)
LOCK = threading.Lock()


def _w():
    return getattr(TL, 'w', None)


class Pt(tuple):
    """stand-in for a namedtuple-like argument (a tuple subclass): plain Python hands it to the function as it is"""
    __slots__ = ()

    def __new__(cls, *a):
        return tuple.__new__(cls, a)

    def __getnewargs__(self):
        return tuple(self)

    def __repr__(self):
        return 'Pt' + tuple.__repr__(self)


class OD(dict):
    """a dict subclass argument"""

    def __repr__(self):
        return 'OD(' + dict.__repr__(self) + ')'


class LL(list):
    """a list subclass argument"""

    def __repr__(self):
        return 'LL(' + list.__repr__(self) + ')'


def canon(v):
    """deterministic text for a value (container subclasses keep their type name: type fidelity is part of the value)"""
    if type(v) not in (dict, list, tuple) and isinstance(v, (dict, list, tuple)):
        base = dict if isinstance(v, dict) else (list if isinstance(v, list) else tuple)
        return '%s<%s>' % (type(v).__name__, canon(base(v)))
    if isinstance(v, dict):
        return '{' + ', '.join('%s: %s' % (canon(k), canon(v[k])) for k in sorted(v, key=repr)) + '}'
    if isinstance(v, list):
        return '[' + ', '.join(canon(x) for x in v) + ']'
    if isinstance(v, tuple):
        return '(' + ', '.join(canon(x) for x in v) + (',)' if len(v) == 1 else ')')
    if type(v).__module__ == 'numpy':
        return '%s<%s>' % (type(v).__name__, ' '.join(repr(v).split()))
    return repr(v)


def num(v):
    """collapse any value to an int (makes arithmetic functions total)"""
    if isinstance(v, bool):
        return int(v)
    if isinstance(v, int):
        return v
    if isinstance(v, str):
        return len(v)
    if isinstance(v, dict):
        return sum(num(v[k]) for k in sorted(v, key=repr))
    if isinstance(v, (list, tuple)):
        return sum(num(x) for x in v)
    if v is None:
        return 0
    return 1


class TaskFailure(Exception):
    pass


# what a failing task function raises (by its key): user code fails in all sorts of ways, all of them subclasses of Exception
EXC_TYPES = [TaskFailure, OSError, FileNotFoundError, KeyError, ValueError, ZeroDivisionError, RuntimeError, AssertionError, IOError, PermissionError, TimeoutError, StopIteration]


def _logged(f):
    name = f.__name__

    def g(k, *a, **kw):
        CALLS.append(('B', name, k, _w(), canon((a, kw))))
        plan = FAULTS.get(k)
        if plan is not None:
            kind, left = plan
            if left is None or left > 0:
                if left is not None:
                    FAULTS[k] = (kind, left - 1)
                CALLS.append(('X', name, k, _w(), kind))
                if kind == 'exc':
                    cls = EXC_TYPES[k % len(EXC_TYPES)] if isinstance(k, int) else TaskFailure
                    raise cls('planned failure of task %r' % (k,))
                if kind == 'sysexit':
                    raise SystemExit(1)
                if kind == 'kbdint':
                    raise KeyboardInterrupt()
        r = f(k, *a, **kw)
        CALLS.append(('E', name, k, _w(), canon(r)))
        return r
    g.__name__ = name
    g.__qualname__ = name
    g.__module__ = __name__
    g.raw = f
    return g


@_logged
def const(k):
    return k


@_logged
def mk(k, n):
    return list(range(k, k + n))


@_logged
def pair(k, a, b):
    return (a, b, k)


@_logged
def add(k, a, b):
    return num(a) + num(b) + k


@_logged
def use(k, x, **kw):
    return ['use', k, x, sorted((kk, canon(v)) for kk, v in kw.items())]


@_logged
def mkdict(k, a):
    return {'a': a, 'k': k, 'l': [a, k]}


@_logged
def inc(k, a):
    return num(a) + 1 + k


@_logged
def nil(k):
    """a task whose result is None (stored as an empty file by the file backend)"""
    return None


@_logged
def idx(k, n):
    """an int in range(n): used as a task-valued index"""
    return k % n


@_logged
def arr(k, n):
    """a NumPy result: plain array (raw .npy path of the file store), np.matrix (an ndarray subclass with its own `*`), or a 0-d / empty array"""
    import numpy as np
    c = k % 4
    if c == 0:
        return np.arange(n) + k
    if c == 1:
        return np.matrix([[k, 1], [2, n]])
    if c == 2:
        return np.array(float(k))
    return np.zeros((0, n), dtype='i4')


@_logged
def asq(k, a):
    """a consumer whose result depends on the exact type of a NumPy argument (matrix product vs element-wise product)"""
    import numpy as np
    if isinstance(a, np.ndarray):
        return [type(a).__name__, str(a.dtype), list(a.shape), (a * a).tolist() if a.ndim == 2 and a.shape[0] == a.shape[1] else a.tolist()]
    return ['not-an-array', num(a), k]


# mapper / reducer functions for map, mapreduce, reduce, currymap (plain: called inside jug's own block tasks)
def dbl(x):
    CALLS.append(('M', 'dbl', x, _w(), ''))
    return 2 * num(x) + 1


def wrap(x):
    CALLS.append(('M', 'wrap', x, _w(), ''))
    return (x,)


def cat(a, b):
    return a + b


def mul(a, b):
    CALLS.append(('M', 'mul', (a, b), _w(), ''))
    return num(a) * num(b)


def nsum(xs):
    """the operation of a function-wrapped view (jug.task.Tasklet(base, f)): applied to the *value* of the base"""
    return ['nsum', num(xs), canon(xs)]


nsum.__module__ = __name__


RAW = {n: globals()[n] for n in ('const', 'mk', 'pair', 'add', 'use', 'mkdict', 'inc', 'idx', 'arr', 'asq', 'nil')}


def jug_namespace():
    """names a generated jugfile imports (jug mode)"""
    from jug import TaskGenerator, Task, iteratetask
    from jug.mapreduce import map as jmap, mapreduce, currymap, reduce as jreduce
    from jug.utils import identity, CustomHash
    from jug.task import return_tuple
    from jug.unsafe import NoHash
    from jug.hash import hash_one
    ns = {n: TaskGenerator(f) for n, f in RAW.items()}
    ns.update(dict(Task=Task, iteratetask=iteratetask, jmap=jmap, mapreduce=mapreduce, currymap=currymap, jreduce=jreduce,
                   identity=identity, CustomHash=CustomHash, NoHash=NoHash, hash_one=hash_one, return_tuple=return_tuple, Tasklet=__import__('jug.task').task.Tasklet, nsum=nsum,
                   dbl=dbl, wrap=wrap, cat=cat, mul=mul, Pt=Pt, OD=OD, LL=LL, same=TaskGenerator(same), np=__import__('numpy'),
                   pair2=return_tuple(3)(TaskGenerator(RAW['pair']))))
    return ns


def plain_namespace():
    """the same names with their plain-Python meaning (the reference semantics of C01)"""
    import functools
    ns = dict(RAW)

    def jmap(f, xs, map_step=4):
        return [f(x) for x in xs]

    def mapreduce(r, m, xs, map_step=4, reduce_step=8):
        ys = [m(x) for x in xs]
        return functools.reduce(r, ys) if ys else []

    def currymap(f, xs, map_step=4):
        return [f(*x) for x in xs]

    def jreduce(r, xs, reduce_step=8):
        return functools.reduce(r, list(xs)) if xs else []
    ns.update(dict(Task=lambda f, *a, **k: f(*a, **k), iteratetask=lambda t, n: [t[i] for i in range(n)], jmap=jmap, mapreduce=mapreduce,
                   currymap=currymap, jreduce=jreduce, identity=lambda x: x, CustomHash=lambda x, h: x, NoHash=lambda x: x, Tasklet=lambda base, f: f(base), nsum=nsum,
                   hash_one=lambda x: b'', return_tuple=lambda n: (lambda f: f), dbl=dbl, wrap=wrap, cat=cat, mul=mul, pair2=RAW['pair'], Pt=Pt, OD=OD, LL=LL, same=same, np=__import__('numpy')))
    return ns


# jug-mode names are created lazily so that importing this module in a plain interpreter does not need jug
def __getattr__(name):
    if name.startswith('__'):
        raise AttributeError(name)
    ns = jug_namespace()
    if name in ns:
        return ns[name]
    raise AttributeError(name)


def same(x):
    """a function without a key argument: two consumers `same(v1)`, `same(v2)` differ only in their argument"""
    return ['same', x]


same.__module__ = __name__


def lit(k, v):
    """a task whose value is the literal `v` (used by the views check)"""
    return v


lit.__module__ = __name__
