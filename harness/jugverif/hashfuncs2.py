"""functions with the same names as those of hashmodel.py, in another module: an invocation of one is not an invocation of the other"""


def f(*a, **k):
    return 'other module'


def _m21(x):
    return 3 * x


def tgm(x):
    return 3 * x + 2


def op(x):
    return ('other', x)
