"""Correspondence of the scheduling loop: the real `jug.jug.execution_loop` against the Lean program `Jug.Loop.loopTrace`.

Both are run on the same task list (dependency lists by index; any length), flag setting (keep-going, keep-failed, aggressive
unloading, exit hooks), number of wait cycles and stream of environment answers; the two event lists must be equal event by event.
The scripted environment is the one described in Model/Loop.lean: answers are consumed left to right (exhausted = 0), a task
seen with a result keeps it, a task seen without a result under its own lock still has none.

A disagreement is not a verdict by itself (the loop may have been rewritten harmlessly): the caller then evaluates the
obligations the theorems need (`lscanOK`, `lconforms`) directly on the real trace and looks for a failing input.
"""
import jug
import jug.task
import jug.jug
import jug.hooks
from jug.hooks import register


class Diverges(BaseException):
    pass


class LEnv:
    def __init__(self, answers, policy=None):
        self.answers = list(answers)
        self.policy = policy        # (rng, p_result, p_lock, p_ok, p_hook): draw the answers by kind of question and record them
        self.drawn = []
        self.log = []
        self.known = set()
        self.held = set()
        self.nores = set()
        self.ticks = 0

    def pop(self, kind='bool'):
        if self.policy is not None and len(self.drawn) < 4000:
            rng, p_res, p_lock, p_ok, p_hook = self.policy
            if kind == 'can_load':
                a = rng.choice([1, 3, 5]) if rng.random() < p_res else rng.choice([0, 2, 4])
            elif kind == 'lock':
                a = rng.choice([1, 7]) if rng.random() < p_lock else rng.choice([0, 6])
            elif kind == 'run':
                a = rng.choice([0, 4, 8]) if rng.random() < p_ok else rng.choice([1, 1, 5, 2, 3])
            else:
                a = 1 if rng.random() < p_hook else 0
            self.drawn.append(a)
            return a
        return self.answers.pop(0) if self.answers else 0

    def tick(self):
        self.ticks += 1
        if self.ticks > 200000:
            raise Diverges()

    stop_at = None      # (number of the store / lock call, 'sysExit' | 'kbdInt'): a stop request is delivered while that call is in progress
    calls = 0

    def maybe_stop(self):
        self.calls += 1
        if self.stop_at is not None and self.calls == self.stop_at[0]:
            if self.stop_at[1] == 'sysExit':
                self.log.append(['stop', 'sysExit', 1])
                raise SystemExit(1)
            self.log.append(['stop', 'kbdInt'])
            raise KeyboardInterrupt()


class LStore:
    def __init__(self, env, index):
        self.env, self.index = env, index

    def can_load(self, name):
        t = self.index[name]
        e = self.env
        e.tick()
        e.maybe_stop()
        if t in e.known:
            a = True
        elif t in e.nores and t in e.held:
            a = False
        else:
            a = e.pop('can_load') % 2 == 1
            if a:
                e.known.add(t)
            elif t in e.held:
                e.nores.add(t)
        e.log.append(['canLoad', t, a])
        return a

    def load(self, name):
        self.env.log.append(['load', self.index[name]])
        return 0

    def dump(self, v, name):
        t = self.index[name]
        self.env.log.append(['dump', t])
        self.env.known.add(t)

    def getlock(self, name):
        return LLock(self.env, self.index[name])


class LLock:
    def __init__(self, env, t):
        self.env, self.t = env, t

    def get(self):
        self.env.tick()
        self.env.maybe_stop()
        a = self.env.pop('lock') % 2 == 1
        self.env.log.append(['lock', self.t, a])
        if a:
            self.env.held.add(self.t)
        return a

    def release(self):
        self.env.log.append(['unlock', self.t])
        self.env.held.discard(self.t)
        self.env.nores.discard(self.t)

    def fail(self):
        self.env.log.append(['markFailed', self.t])
        return True

    def is_locked(self):
        return self.t in self.env.held

    def is_failed(self):
        return False


def make_tasks(shape, env):
    tasks, index = [], {}
    store = LStore(env, index)

    def mk(i):
        def f(*a):
            env.log.append(['begin', i])
            o = env.pop('run') % 4
            if o == 1:
                env.log.append(['endExc', i])
                raise ValueError('task %d failed' % i)
            if o == 2:
                env.log.append(['stop', 'sysExit', 1])
                raise SystemExit(1)
            if o == 3:
                env.log.append(['stop', 'kbdInt'])
                raise KeyboardInterrupt()
            env.log.append(['endOk', i])
            return i
        f.__name__ = f.__qualname__ = 'f%d' % i
        f.__module__ = 'jugverif_loop'
        return f
    for i, deps in enumerate(shape):
        tasks.append(jug.task.Task(mk(i), *[tasks[d] for d in deps]))
    for i, t in enumerate(tasks):
        index[t.hash()] = i
        t.store = store
    return tasks


def run_real(shape, flags, nr, answers, policy=None, stop_at=None):
    """event list of the real execution_loop; flags = (keep_going, keep_failed, aggressive_unload, hook_exits).
    With a policy the answers are drawn while the loop runs and returned in `answers` (the list is extended in place)."""
    from jugverif import jugenv
    env = LEnv(answers, policy)
    env.stop_at = stop_at
    del jug.task.alltasks[:]
    jug.hooks.reset_all_hooks()
    tasks = make_tasks(shape, env)
    tindex = {id(t): i for i, t in enumerate(tasks)}
    hx = flags[3]

    def pre(t):
        env.log.append(['preExec', tindex[id(t)]])
        if hx and env.pop('hook') % 2 == 1:
            env.log.append(['stop', 'sysExit', 0])
            raise SystemExit(0)

    def post(t):
        env.log.append(['executed1', tindex[id(t)]])
        if hx and env.pop('hook') % 2 == 1:
            env.log.append(['stop', 'sysExit', 0])
            raise SystemExit(0)
    register.register_hook('execute.task-pre-execute', pre)
    register.register_hook('execute.task-executed1', post)
    o = jugenv.options()
    o.execute_keep_going, o.execute_keep_failed, o.aggressive_unload = flags[0], flags[1], flags[2]
    o.execute_nr_wait_cycles = nr
    o.execute_wait_cycle_time = 0
    o.execute_target = None
    o.debug = False
    o.pdb = False
    import time as _time
    real_sleep = _time.sleep
    _time.sleep = lambda s_: env.tick()
    try:
        r = jug.jug.execution_loop(list(tasks), o)
        env.log.append(['ret', bool(r)])
    except Diverges:
        env.log.append(['diverges'])
    except SystemExit as e:
        env.log.append(['raise', 'sysExit', int(e.code or 0)])
    except KeyboardInterrupt:
        env.log.append(['raise', 'kbdInt'])
    except Exception as e:
        env.log.append(['raise', 'exc'])
    finally:
        _time.sleep = real_sleep
        jug.hooks.reset_all_hooks()
        del jug.task.alltasks[:]
    if policy is not None:
        answers[:] = env.drawn
    return env.log


def gen_case(rng, big=False):
    """a task list, flags, wait-cycle count and answer stream"""
    if big:
        n = rng.choice([129, 140, 200, 300])
        maxdeps = 2
    else:
        n = rng.choice([0, 1, 2, 3, 4, 5, 6, 8, 10, 14, 20])
        maxdeps = 3
    style = rng.choice(['random', 'chain', 'late', 'fan'])
    shape = []
    for i in range(n):
        if i == 0:
            shape.append([])
            continue
        if style == 'chain':
            ds = [i - 1] if rng.random() < 0.8 else []
        elif style == 'late':
            # runnable tasks sit behind long runs of not-yet-runnable ones
            ds = [rng.randrange(i // 2, i)] if rng.random() < 0.9 else []
        elif style == 'fan':
            ds = [0] if rng.random() < 0.7 else []
        else:
            k = rng.randrange(0, min(maxdeps, i) + 1)
            ds = rng.sample(range(i), k)
        shape.append(ds)
    flags = [rng.random() < 0.5, rng.random() < 0.4, rng.random() < 0.4, rng.random() < 0.25]
    nr = rng.choice([1, 1, 2, 3])
    m = rng.choice([0, 3, 10, 30, 80]) if not big else rng.choice([50, 300, 800])
    p_odd = rng.choice([0.3, 0.6, 0.85, 0.97])
    answers = []
    for _ in range(m):
        if rng.random() < p_odd:
            answers.append(rng.choice([1, 1, 1, 5, 9]))       # odd: True; as a function outcome 1 = raises
        else:
            answers.append(rng.choice([0, 0, 4, 2, 6, 3, 7, 8]))
    c = {'deps': shape, 'flags': flags, 'nr': nr, 'answers': answers}
    if rng.random() < 0.7:
        # answers drawn by kind of question while the real loop runs (so that runs get far), then replayed to the model
        c['answers'] = []
        c['policy'] = (rng.choice([0.0, 0.05, 0.2, 0.5]), rng.choice([1.0, 0.9, 0.6]), rng.choice([1.0, 0.9, 0.7]), 0.08)
    return c


def first_difference(a, b):
    for i, (x, y) in enumerate(zip(a, b)):
        if x != y:
            return i, x, y
    if len(a) != len(b):
        i = min(len(a), len(b))
        return i, (a[i] if i < len(a) else None), (b[i] if i < len(b) else None)
    return None


def check_loop(run, drv, rng, ncases, nbig):
    """returns the number of disagreements; records obligations / failures on `run`"""
    from jugverif import core
    cases = [gen_case(rng) for _ in range(ncases)] + [gen_case(rng, big=True) for _ in range(nbig)]
    # deterministic corner cases first: empty list, all loadable, nothing runnable, rotation across the 128-task window
    cases = [{'deps': [], 'flags': [False] * 4, 'nr': 1, 'answers': []},
             {'deps': [[], [0], [1]], 'flags': [False] * 4, 'nr': 1, 'answers': [1, 1, 1]},
             {'deps': [[], [0], [1]], 'flags': [True, True, True, False], 'nr': 2, 'answers': [0, 0, 0, 1, 0, 1]},
             {'deps': [[]] + [[0]] * 130 + [[]], 'flags': [False] * 4, 'nr': 2, 'answers': [0, 0, 0]},
             {'deps': [[]] + [[0]] * 130 + [[]], 'flags': [False, False, True, False], 'nr': 3, 'answers': [0, 1] + [0] * 140 + [1] * 30}] + cases
    dis = 0
    nevents = 0
    kinds = {}
    for c in cases:
        core.CURRENT_INPUT.clear()
        core.CURRENT_INPUT.update({'family': 'scheduling loop', **c})
        pol = c.pop('policy', None)
        real = run_real(c['deps'], c['flags'], c['nr'], c['answers'], (rng,) + pol if pol else None)
        ans = drv.ask({'op': 'loop', **c})
        model = ans.get('trace')
        run.case(('loop', len(c['deps']), tuple(c['flags']), c['nr'], tuple(c['answers'][:40])), nontrivial=len(real) > 6)
        nevents += len(real)
        for e in real:
            kinds[e[0]] = kinds.get(e[0], 0) + 1
        run.count('loop_cases_n%s' % ('>128' if len(c['deps']) > 128 else '<=20'))
        d = first_difference(real, model or [])
        if d is not None:
            dis += 1
            if dis <= 3:
                run.notes.append('scheduling-loop model differs from the code on %r at event %d: code %r, model %r' % ({k: (v if k != 'answers' else v[:60]) for k, v in c.items()}, d[0], d[1], d[2]))
            # fall back to the obligations the theorems need, evaluated on the real trace
            ok = judge_real_trace(run, drv, c, real)
            if not ok:
                continue
    run.counts['loop_events_compared'] = nevents
    run.counts['loop_event_kinds'] = kinds
    core.CURRENT_INPUT.clear()
    return dis


def judge_real_trace(run, drv, c, real):
    """the worker-local obligations (conformance to `lstep`, scan obligation) on one real trace of the loop"""
    evs = [e for e in real]
    if evs and evs[-1] == ['diverges']:
        run.fail('loop-diverges', 'execution_loop does not end on the task list %r with flags %r, %d wait cycles and answers %r' % (c['deps'], c['flags'], c['nr'], c['answers'][:80]),
                 {'kind': 'loop', **c})
        return False
    ans = drv.ask({'op': 'looptrace', 'deps': c['deps'], 'flags': c['flags'], 'events': evs})
    if not ans.get('conforms', False) or not ans.get('scanOK', False):
        what = []
        if not ans.get('conforms', False):
            what.append('breaks the per-task protocol (lock, re-check, run, store, unlock) at some event')
        if not ans.get('scanOK', False):
            what.append('returns although some task was neither seen complete, nor found locked, nor seen waiting for a dependency since the last finished task')
        run.fail('loop-obligation', 'execution_loop on the task list %r (flags keep-going/keep-failed/aggressive-unload/exit-hooks %r, %d wait cycles, environment answers %r) %s; events: %r'
                 % (c['deps'], c['flags'], c['nr'], c['answers'][:80], ' and '.join(what), evs[:120]), {'kind': 'loop', **c})
        return False
    return True


def stop_injection_family(run, drv, rng, n):
    """a stop request (SIGTERM turned into SystemExit, Ctrl-C) delivered while the worker is inside a store or lock call - looking at a task, taking
    a lock, probing a task somebody else holds, between tasks: the request must end the loop (nothing is begun or stored afterwards, a held lock is
    released, the exception leaves execution_loop). Judged by the worker-local transition function on the recorded events."""
    if drv is None:
        return
    done = 0
    for _ in range(n * 3):
        if done >= n:
            break
        c = gen_case(rng)
        if not c['deps']:
            continue
        pol = c.pop('policy', None) or (rng.choice([0.0, 0.2]), rng.choice([1.0, 0.6, 0.3]), 0.9, 0.0)
        c['flags'][3] = False
        # how many store / lock calls does the undisturbed run make?
        env_probe = list(c['answers'])
        real0 = run_real(c['deps'], c['flags'], c['nr'], env_probe, (rng,) + tuple(pol))
        ncalls = sum(1 for e in real0 if e[0] in ('canLoad', 'lock'))
        if ncalls == 0:
            continue
        answers = list(env_probe)
        k = rng.randrange(1, ncalls + 1)
        kind = rng.choice(['sysExit', 'kbdInt'])
        real = run_real(c['deps'], c['flags'], c['nr'], list(answers), None, stop_at=(k, kind))
        done += 1
        run.case(('loop-stop', len(c['deps']), k, kind, tuple(answers[:30])), nontrivial=True)
        run.count('loop_stop_injections')
        rp = {'kind': 'loop-stop', 'deps': c['deps'], 'flags': c['flags'], 'nr': c['nr'], 'answers': answers, 'stop_at': [k, kind]}
        stopped = [i for i, e in enumerate(real) if e[0] == 'stop']
        if not stopped:
            continue
        after = real[stopped[0] + 1:]
        ends_ok = bool(real) and real[-1][0] == 'raise' and real[-1][1] == kind
        later = [e for e in after if e[0] in ('begin', 'dump', 'lock', 'endOk', 'preExec')]
        ans = drv.ask({'op': 'looptrace', 'deps': c['deps'], 'flags': c['flags'], 'events': real})
        if later or not ends_ok or not ans.get('conforms', False):
            run.fail('stop-request-swallowed', 'a stop request (%s) delivered during store/lock call number %d of execution_loop over the task list %r (flags %r, answers %r): %s; events after the request: %r'
                     % ('SystemExit from the SIGTERM handler' if kind == 'sysExit' else 'KeyboardInterrupt', k, c['deps'], c['flags'], answers[:40],
                        'the worker goes on (%s)' % later[:4] if later else ('the loop does not end with the exception: last event %r' % (real[-1],) if not ends_ok else 'the events break the per-task protocol'),
                        after[:12]), rp)
