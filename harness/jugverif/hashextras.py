"""values outside the modelled universe of C07/C08 (no Lean counterpart: checked on the real code only).

`build_all(variant)` builds the same values in every variant; the variant changes only their representation: object identity of
the elements, memory layout, the file name a lambda was compiled under (how the jugfile's path was spelled), insertion orders."""


def fresh(s, variant):
    """an equal string that is a different object in every call"""
    return ''.join([s[:1], s[1:]]) if variant % 2 else ''.join(list(s))


LAMBDA_SRC = '''
from jug import Task
from jug.task import Tasklet
from jugverif import hashmodel as hm
base = Task(hm.g, 3)
t_inc = Tasklet(base, lambda x: x + 1)
t_attr = Tasklet(base, lambda x: x.real)
t_call = Tasklet(base, lambda x: sorted(x, key=lambda y: -y))
c_inc = Task(hm.f, t_inc)
c_attr = Task(hm.h2, [t_attr, {'k': t_call}])
'''

FILENAMES = ['jugfile.py', './jugfile.py', 'proj/../proj/jugfile.py', '/abs/checkout-a/proj/jugfile.py', '/mnt/cluster/other/jugfile.py']


def build_all(variant):
    import numpy as np
    import jug.task
    from jug import Task
    from jugverif import hashmodel as hm
    out = []
    names = ['ann', 'bob', 'carol-with-a-longer-name', 'd']
    # record arrays with object-typed fields (what DataFrame.to_records() gives for string columns)
    dt = np.dtype([('name', 'O'), ('score', '<f8')])
    rec = np.array([(fresh(n, variant), 1.5 * i) for i, n in enumerate(names)], dtype=dt)
    out.append(('record array with an object field', rec))
    wide = np.array([(fresh(n, variant), 1.5 * i) for i, n in enumerate(names) for _ in (0, 1)], dtype=dt)
    out.append(('strided view of a record array with an object field', wide[::2] if variant % 3 else np.ascontiguousarray(wide[::2])))
    dtn = np.dtype([('p', [('q', 'O'), ('r', '<i2')]), ('n', '<i4')])
    recn = np.array([((fresh(n, variant), i), 7 * i) for i, n in enumerate(names)], dtype=dtn)
    out.append(('record array with a nested object field', recn))
    out.append(('task over record arrays', Task(hm.f, [rec, {'r': recn}], key=(wide[::2], 1))))
    tup = np.array([((fresh('x', variant), (1, fresh('yz', variant))), 1)], dtype=[('o', 'O'), ('i', '<i8')])
    out.append(('record array whose object field holds a tuple', tup))
    # plain record arrays in several layouts
    pdt = np.dtype([('id', '<i4'), ('w', '<f4')])
    plain = np.array([(i, i / 2.0) for i in range(6)], dtype=pdt)
    lay = [plain, np.array(list(plain) * 2, dtype=pdt)[:6], np.array([x for p in plain for x in (p, p)], dtype=pdt)[::2], plain.reshape(2, 3).T.T.reshape(6)]
    out.append(('plain record array', lay[variant % len(lay)]))
    # lambdas in tasklets: the jugfile is compiled under the name it was given on the command line
    ns = {}
    exec(compile(LAMBDA_SRC, FILENAMES[variant % len(FILENAMES)], 'exec'), ns)
    for k in ('t_inc', 't_attr', 't_call', 'c_inc', 'c_attr'):
        out.append(('lambda tasklet %s (jugfile spelled %s in some process)' % (k, FILENAMES[1]), ns[k]))
    # callables of other kinds as task functions: a partial, a callable instance, built-in functions, methods. Whatever jug does with them - accept or refuse -
    # it does the same in every process
    import functools, operator
    for label, mk in (('functools.partial of a module-level function', lambda: Task(functools.partial(hm.f, 1), 2)),
                      ('functools.partial with keyword', lambda: Task(functools.partial(hm.g, key=3), [1])),
                      ('callable instance', lambda: Task(hm.CALLABLE_INSTANCE, 5)),
                      ('built-in function', lambda: Task(len, [1, 2, 3])),
                      ('operator function', lambda: Task(operator.add, 1, 2)),
                      ('unbound method of a built-in type', lambda: Task(str.upper, 'abc')),
                      ('bound method', lambda: Task('abc'.upper))):
        try:
            out.append(('task whose function is a %s' % label, mk()))
        except Exception as e:
            out.append(('task whose function is a %s' % label, _Refused(type(e).__name__)))
    del jug.task.alltasks[:]
    return out


class _Refused:
    """jug refused to build the task: the 'identifier' is the kind of refusal"""
    def __init__(self, what):
        self.what = what

    def __jug_hash__(self):
        return ('refused:' + self.what).encode()


def ids(variant):
    from jug.hash import hash_one
    res = []
    for label, v in build_all(variant):
        try:
            res.append((label, hash_one(v).decode()))
        except Exception as e:
            res.append((label, 'EXC %s' % type(e).__name__))
    return res


if __name__ == '__main__':
    import json
    import sys
    import warnings
    warnings.simplefilter('ignore')
    import jug.task
    from jug.backends.dict_store import dict_store
    jug.task.Task.store = dict_store()
    junk = [object() for _ in range(int(sys.argv[1]) * 37)]  # a different allocation history
    print(json.dumps(ids(int(sys.argv[1]))))
