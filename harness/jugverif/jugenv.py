"""helpers to drive the real jug code in-process"""
import logging
import os
import sys

import jug
import jug.task
import jug.jug
import jug.options
from jug.backends.dict_store import dict_store

logging.disable(logging.CRITICAL)


def options():
    """a private copy of the default options with all subcommand defaults loaded"""
    import jug.subcommands.execute, jug.subcommands.status, jug.subcommands.cleanup, jug.subcommands.invalidate  # noqa
    jug.options.default_options.jugfile     # force the auto-initialiser before copying (see DESIGN appendix B)
    o = jug.options.default_options.copy()
    o.execute_nr_wait_cycles = 1
    o.execute_wait_cycle_time = 0
    return o


def reset(store=None):
    if store is None:
        store = dict_store()
    jug.task.Task.store = store
    del jug.task.alltasks[:]
    return store


def run_all(tasks=None):
    """run every task that has no result yet, in creation order (a topological order)"""
    n = 0
    for t in list(jug.task.alltasks if tasks is None else tasks):
        if not t.can_load():
            t.run()
            n += 1
    return n
