"""Python values <-> the Lean hash model (JugModel/Model/Hash.lean); value generator for C07/C08."""
import pickle

import numpy as np

H = lambda b: bytes(b).hex()

LABEL_STRS = ['name', 'args', 'kwargs', 'hash1', 'base', 'f', 'jug.task._getitem']


def enc_table(max_index=400):
    d0 = pickle.dumps(b'0' * 40)
    i = d0.index(b'0' * 40)
    return {'nat': [H(pickle.dumps(k)) for k in range(max_index)],
            'str': {s: H(pickle.dumps(s)) for s in LABEL_STRS},
            'digpre': H(d0[:i]), 'digpost': H(d0[i + 40:])}


def to_model(e):
    """translate a live Python object into the model's PVal (JSON). Mirrors the *dispatch order* of hash_update."""
    import jug.task
    from jug.task import Task, Tasklet, _getitem
    from jug import mapreduce
    if isinstance(e, Task) and '__jug_hash__' not in e.__dict__:
        return {'t': 'task', 'name': H(pickle.dumps(e.name.encode('utf-8'))), 'args': [to_model(a) for a in e.args],
                'kwargs': [[to_model(k), to_model(v)] for k, v in e.kwargs.items()]}
    if isinstance(e, Tasklet):
        f = e.f
        if getattr(f, '__name__', '') == '<lambda>':
            fm = to_model(('<lambda>', f.__code__.co_code))
        else:
            fm = to_model(f)
        return {'t': 'tasklet', 'base': to_model(e.base), 'f': fm}
    if isinstance(e, _getitem):
        return {'t': 'hashed', 'v': to_model(('jug.task._getitem', e.slice))}
    if isinstance(e, mapreduce.block_access):
        return {'t': 'hashed', 'v': to_model({'type': 'map-access', 'len': e.len, 'blocks': e.blocks, 'block_size': e.block_size})}
    if isinstance(e, mapreduce.block_access_slice):
        return {'t': 'hashed', 'v': to_model({'type': 'map-access-slice', 'base': e.base, 'start': e.start, 'stop': e.stop, 'stride': e.stride})}
    if hasattr(e, '__jug_hash__'):
        # user supplied / opaque identity (CustomHash, NoHash, compound tasks, tagged functions): exempt, taken as given
        return {'t': 'custom', 'd': H(e.__jug_hash__())}
    if type(e) in (list, tuple):
        return {'t': 'list' if type(e) == list else 'tuple', 'xs': [to_model(x) for x in e]}
    if type(e) in (set, frozenset):
        return {'t': 'set' if type(e) == set else 'fset', 'xs': [to_model(x) for x in e]}
    if type(e) == dict:
        return {'t': 'dict', 'kvs': [[to_model(k), to_model(v)] for k, v in e.items()]}
    if type(e) == np.ndarray:
        if e.dtype.hasobject:
            return {'t': 'ndobj', 'dtype': H(pickle.dumps(e.dtype)), 'shape': H(pickle.dumps(e.shape)), 'xs': [to_model(x) for x in e.ravel().tolist()]}
        return {'t': 'nd', 'dtype': H(pickle.dumps(e.dtype)), 'shape': H(pickle.dumps(e.shape)), 'data': H(np.ascontiguousarray(e).tobytes())}
    return {'t': 'atom', 'p': H(pickle.dumps(e))}


# ---------------------------------------------------------------------------- value specs
# A spec is a JSON-able tree; build(spec, order_rng) makes the Python object. order_rng (may be None) drives the
# *representation* choices that must not matter: insertion order of sets/dicts, memory layout of arrays.

ATOMS = [('none',), ('bool', True), ('bool', False), ('int', 0), ('int', 1), ('int', 2), ('int', -1), ('int', 255), ('int', 256), ('int', 10 ** 30),
         ('float', '0x1.8p+0'), ('float', '-0x0.0p+0'), ('float', 'inf'), ('str', ''), ('str', 'a'), ('str', 'b'), ('str', 'name'), ('str', 'été'),
         ('str', 'x' * 300), ('bytes', ''), ('bytes', '00ff'), ('bytes', '61'), ('complex', 1.0, -2.0),
         ('npscalar', 'int64', 3), ('npscalar', 'float32', 1.5), ('npscalar', 'bool_', 1), ('npscalar', 'uint8', 200)]
HASHABLE_ATOMS = [a for a in ATOMS if a[0] != 'npscalar' or True]
DTYPES = ['u1', 'i2', '<i4', '>i4', 'i8', 'f4', 'f8', 'c16', '?', 'U3', 'S2', 'M8[s]', 'm8[ms]']


def gen_atom(rng):
    r = rng.random()
    if r < 0.75:
        return rng.choice(ATOMS)
    if r < 0.85:
        return ('int', rng.randint(-10 ** 6, 10 ** 6))
    if r < 0.95:
        return ('str', ''.join(rng.choice('abcXYZ_ é0') for _ in range(rng.randint(1, 8))))
    return ('float', float(rng.randint(-1000, 1000) / 8).hex())


def gen_hashable(rng, depth):
    r = rng.random()
    if depth <= 0 or r < 0.7:
        return gen_atom(rng)
    if r < 0.85:
        return ('tuple', [gen_hashable(rng, depth - 1) for _ in range(rng.randint(0, 3))])
    return ('fset', _distinct([gen_hashable(rng, depth - 1) for _ in range(rng.randint(0, 4))]))


def _key(spec):
    import json
    return json.dumps(spec, sort_keys=True, default=str)


def _distinct(specs):
    """distinct *as Python values*: 1, True, 1.0 are equal in Python"""
    out, seen = [], []
    for s in specs:
        v = build(s, None)
        try:
            if any(v == w and True for w in seen):
                continue
        except Exception:
            continue
        if isinstance(v, float) and v != v:
            continue
        seen.append(v)
        out.append(s)
    return out


def gen_array(rng):
    dt = rng.choice(DTYPES)
    nd = rng.choice([0, 1, 1, 2, 2, 3])
    shape = [rng.randint(0, 4) for _ in range(nd)]
    n = 1
    for s in shape:
        n *= s
    vals = [rng.randint(0, 6) for _ in range(n)]
    return ('nd', dt, shape, vals)


def gen_value(rng, depth=3, allow_task=True):
    r = rng.random()
    if depth <= 0 or r < 0.30:
        return gen_atom(rng)
    if r < 0.42:
        return ('list', [gen_value(rng, depth - 1, allow_task) for _ in range(rng.randint(0, 4))])
    if r < 0.54:
        return ('tuple', [gen_value(rng, depth - 1, allow_task) for _ in range(rng.randint(0, 4))])
    if r < 0.62:
        return ('set', _distinct([gen_hashable(rng, depth - 1) for _ in range(rng.randint(0, 6))]))
    if r < 0.68:
        return ('fset', _distinct([gen_hashable(rng, depth - 1) for _ in range(rng.randint(0, 6))]))
    if r < 0.78:
        keys = _distinct([gen_hashable(rng, depth - 1) for _ in range(rng.randint(0, 5))])
        return ('dict', [[k, gen_value(rng, depth - 1, allow_task)] for k in keys])
    if r < 0.86:
        return gen_array(rng)
    if r < 0.89:
        n = rng.randint(0, 4)
        return ('ndobj', [n], [gen_value(rng, 1, False) for _ in range(n)])
    if not allow_task:
        return gen_atom(rng)
    if r < 0.94:
        return gen_task(rng, depth - 1)
    if r < 0.97:
        base = gen_task(rng, depth - 1)
        idx = rng.choice([('int', rng.randint(0, 3)), ('str', 'k'), ('slice', rng.randint(0, 2), rng.randint(2, 5)), gen_task(rng, 0), ('lambda', rng.choice([1, 2]))])
        t = ('tasklet', base, idx)
        if rng.random() < 0.3:
            t = ('tasklet', t, ('int', rng.randint(0, 2)))
        return t
    if r < 0.985:
        return ('custom', rng.choice(['CustomHash', 'NoHash']), gen_value(rng, 1, False))
    n, step = rng.randint(0, 9), rng.randint(2, 4)
    if rng.random() < 0.5:
        return ('mapped', n, step)
    return ('mapslice', n, step, [rng.choice([None, 0, 1, 2, -1]), rng.choice([None, 3, 5, -1]), rng.choice([None, 1, 2, -1])])


FNAMES = ['f', 'g', 'h2']


def gen_task(rng, depth):
    args = [gen_value(rng, depth, True) for _ in range(rng.randint(0, 3))]
    kws = rng.sample(['a', 'b', 'key', 'zz'], rng.randint(0, 2))
    return ('task', rng.choice(FNAMES), args, [[k, gen_value(rng, depth, True)] for k in kws])


# functions tasks are made of (names matter for the hash, bodies do not)
def f(*a, **k): return None
def g(*a, **k): return None
def h2(*a, **k): return None
def _m21(x): return 2 * x + 1


class _CallableClass:
    """an object that is called like a function (no __name__)"""

    def __call__(self, *a, **k):
        return None


CALLABLE_INSTANCE = _CallableClass()


def tgm(x):
    return 2 * x + 1


def op(x):
    return ('this', x)


def _shuffled(items, order_rng):
    items = list(items)
    if order_rng is not None:
        order_rng.shuffle(items)
    return items


def build(spec, order_rng):
    from jug.task import Task
    k = spec[0]
    if k == 'none': return None
    if k == 'bool': return bool(spec[1])
    if k == 'int': return int(spec[1])
    if k == 'float': return float.fromhex(spec[1]) if spec[1] not in ('inf',) else float('inf')
    if k == 'str':
        # object identity of equal strings is not part of the value: one representation shares one object per distinct string,
        # the other makes a fresh object for every occurrence (as split(), file reads, JSON decoding do)
        import sys as _sys
        return _sys.intern(spec[1]) if order_rng is None else ''.join(list(spec[1]))
    if k == 'bytes':
        b_ = bytes.fromhex(spec[1])
        return b_ if order_rng is None else bytes(bytearray(b_))
    if k == 'complex': return complex(spec[1], spec[2])
    if k == 'npscalar': return getattr(np, spec[1])(spec[2])
    if k == 'list': return [build(s, order_rng) for s in spec[1]]
    if k == 'tuple': return tuple(build(s, order_rng) for s in spec[1])
    if k == 'set':
        s = set()
        for x in _shuffled(spec[1], order_rng):
            s.add(build(x, order_rng))
        return s
    if k == 'fset':
        return frozenset(build(x, order_rng) for x in _shuffled(spec[1], order_rng))
    if k == 'dict':
        d = {}
        for kk, vv in _shuffled(spec[1], order_rng):
            d[build(kk, order_rng)] = build(vv, order_rng)
        return d
    if k == 'nd':
        _, dt, shape, vals = spec
        base = np.array(vals, dtype='i8')
        if dt[0] in 'Mm':
            a = base.astype(dt)
        elif dt[0] in 'US':
            a = base.astype('U1').astype(dt) if dt[0] == 'U' else base.astype('S1').astype(dt)
        else:
            a = base.astype(dt)
        a = a.reshape(shape)
        return relayout(a, order_rng)
    if k == 'ndobj':
        a = np.empty(len(spec[2]), dtype=object)
        for i, s in enumerate(spec[2]):
            a[i] = build(s, order_rng)
        return a.reshape(spec[1])
    if k == 'task':
        fn = globals()[spec[1]]
        return Task(fn, *[build(s, order_rng) for s in spec[2]], **{kk: build(vv, order_rng) for kk, vv in _shuffled(spec[3], order_rng)})
    if k == 'tasklet':
        base = build(spec[1], order_rng)
        idx = spec[2]
        if idx[0] == 'slice':
            return base[idx[1]:idx[2]]
        if idx[0] == 'lambda':
            from jug.task import Tasklet
            return Tasklet(base, (lambda x: x + 1) if idx[1] == 1 else (lambda x: x + 2))
        return base[build(idx, order_rng)]
    if k == 'custom':
        from jug.utils import CustomHash
        from jug.unsafe import NoHash
        from jug.hash import hash_one
        v = build(spec[2], order_rng)
        return CustomHash(v, hash_one) if spec[1] == 'CustomHash' else NoHash(v)
    if k == 'mapped':
        from jug.mapreduce import map as jmap
        return jmap(_m21, list(range(spec[1])), map_step=spec[2])
    if k == 'mapslice':
        from jug.mapreduce import map as jmap
        a, b, c = spec[3]
        return jmap(_m21, list(range(spec[1])), map_step=spec[2])[a:b:c]
    raise ValueError(spec)


def relayout(a, order_rng):
    """same logical array, different memory layout / base (must not influence the hash)"""
    if order_rng is None or a.ndim == 0:
        return a
    c = order_rng.randint(0, 5)
    if c == 0:
        return a
    if c == 1:
        return np.asfortranarray(a)
    if c == 2:      # strided view into a larger buffer
        big = np.zeros(tuple(2 * s for s in a.shape), dtype=a.dtype)
        v = big[tuple(slice(None, None, 2) for _ in a.shape)]
        v[...] = a
        return v
    if c == 3:      # reversed view of a reversed copy
        r = a[tuple(slice(None, None, -1) for _ in a.shape)].copy()
        return r[tuple(slice(None, None, -1) for _ in a.shape)]
    if c == 4 and a.ndim >= 2:
        return a.T.copy().T
    return a.copy()


class RecordingHash:
    """replacement for hashlib.sha1() that records every update() chunk"""
    def __init__(self):
        import hashlib
        self.h = hashlib.sha1()
        self.chunks = []

    def update(self, b):
        b = bytes(b)
        self.chunks.append(b)
        self.h.update(b)

    def hexdigest(self):
        return self.h.hexdigest()
