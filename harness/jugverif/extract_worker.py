"""Exhaustive behavioural extraction of the real worker loop (jug.jug.execution_loop).

The real function is run against a scripted store/lock/task-function environment; at every primitive whose answer is not
determined by what the worker has already seen, the run branches over the whole answer domain. The result is the complete
set of root-to-leaf paths (event lists) for a given task list and flag setting. Emitted as Lean (Generated/WorkerPaths.lean).
"""
import itertools
import logging

import jug
import jug.task
import jug.jug
import jug.hooks
from jug.hooks import register


class NeedAnswer(BaseException):
    def __init__(self, q, dom):
        self.q, self.dom = q, dom


class Diverges(BaseException):
    """the loop under exploration keeps going without asking the environment anything new"""


class Env:
    def __init__(self, answers):
        self.answers = list(answers)
        self.ticks = 0
        self.log = []
        self.known = set()       # tasks known to have a result
        self.held = set()        # locks held by this worker
        self.nores = set()       # tasks seen without result while holding their lock

    def ask(self, q, dom):
        if not self.answers:
            raise NeedAnswer(q, dom)
        return self.answers.pop(0)

    def tick(self):
        """called on every store / lock access and every sleep of the loop: a run of these tiny task lists needs a few dozen"""
        self.ticks += 1
        if self.ticks > 3000:
            raise Diverges()


class SStore:
    def __init__(self, env, index):
        self.env, self.index = env, index

    def can_load(self, name):
        t = self.index[name]
        e = self.env
        e.tick()
        if t in e.known:
            a = True
        elif t in e.nores and t in e.held:
            a = False
        else:
            a = e.ask(('can_load', t), [True, False])
        if a:
            e.known.add(t)
        elif t in e.held:
            e.nores.add(t)
        e.log.append(('canLoad', t, a))
        return a

    def load(self, name):
        t = self.index[name]
        self.env.log.append(('load', t))
        return 0

    def dump(self, v, name):
        t = self.index[name]
        self.env.log.append(('dump', t))
        self.env.known.add(t)

    def getlock(self, name):
        return SLock(self.env, self.index[name])


class SLock:
    def __init__(self, env, t):
        self.env, self.t = env, t

    def get(self):
        a = self.env.ask(('lock', self.t), [True, False])
        self.env.log.append(('lock', self.t, a))
        if a:
            self.env.held.add(self.t)
        return a

    def release(self):
        self.env.log.append(('unlock', self.t))
        self.env.held.discard(self.t)
        self.env.nores.discard(self.t)

    def fail(self):
        self.env.log.append(('markFailed', self.t))
        return True

    def is_locked(self):
        self.env.tick()
        return self.t in self.env.held or self.env.ask(('is_locked', self.t), [True, False])

    def is_failed(self):
        self.env.tick()
        return False


def make_tasks(shape, env, hook_exits):
    """shape: list of dependency lists, e.g. [[], [0]]"""
    tasks = []
    index = {}
    store = SStore(env, index)

    def mk(i):
        def f(*a):
            env.log.append(('begin', i))
            o = env.ask(('run', i), ['ok', 'exc', 'sysexit', 'kbdint'])
            if o == 'exc':
                env.log.append(('endExc', i))
                raise ValueError('task %d failed' % i)
            if o == 'sysexit':
                env.log.append(('stop', 'sysExit', 1))
                raise SystemExit(1)
            if o == 'kbdint':
                env.log.append(('stop', 'kbdInt'))
                raise KeyboardInterrupt()
            env.log.append(('endOk', i))
            return i
        f.__name__ = 'f%d' % i
        f.__qualname__ = 'f%d' % i
        f.__module__ = 'jugverif_extract'
        return f
    for i, deps in enumerate(shape):
        t = jug.task.Task(mk(i), *[tasks[d] for d in deps])
        tasks.append(t)
    for i, t in enumerate(tasks):
        index[t.hash()] = i
        t.store = store
    return tasks


DIVERGENT = []      # (shape, flags, log) of explored runs in which the loop did not end within MAX_ANSWERS answers of the environment
MAX_ANSWERS = 80   # the unchanged loop ends every run of these task lists within a few dozen answers


def explore(shape, flags, hook_exits=False, max_leaves=20000):
    """all paths of execution_loop over the task list `shape` under `flags` = (keep_going, keep_failed, aggressive_unload)"""
    from jugverif import jugenv
    leaves = []
    stack = [[]]
    ndiv0 = len(DIVERGENT)
    while stack:
        if len(DIVERGENT) - ndiv0 >= 3:
            break       # the loop diverges under this task list: no point in enumerating the (huge) rest of the tree
        prefix = stack.pop()
        env = Env(prefix)
        del jug.task.alltasks[:]
        jug.hooks.reset_all_hooks()
        tasks = make_tasks(shape, env, hook_exits)
        tindex = {id(t): i for i, t in enumerate(tasks)}

        def pre(t):
            env.log.append(('preExec', tindex[id(t)]))
            if hook_exits and env.ask(('hook-pre', tindex[id(t)]), [False, True]):
                env.log.append(('stop', 'sysExit', 0))
                raise SystemExit(0)

        def post(t):
            env.log.append(('executed1', tindex[id(t)]))
            if hook_exits and env.ask(('hook-post', tindex[id(t)]), [False, True]):
                env.log.append(('stop', 'sysExit', 0))
                raise SystemExit(0)
        register.register_hook('execute.task-pre-execute', pre)
        register.register_hook('execute.task-executed1', post)
        o = jugenv.options()
        o.execute_keep_going, o.execute_keep_failed, o.aggressive_unload = flags
        o.execute_nr_wait_cycles = 1
        o.execute_wait_cycle_time = 0
        o.execute_target = None
        o.debug = False
        o.pdb = False
        import time as _time
        real_sleep = _time.sleep
        _time.sleep = lambda s_: env.tick()
        try:
            r = jug.jug.execution_loop(list(tasks), o)
            env.log.append(('ret', bool(r)))
        except Diverges:
            DIVERGENT.append((shape, flags, list(env.log)))
            leaves.append(list(env.log)[:60])       # emitted without an end: it cannot conform; kept short for the kernel
            continue
        except NeedAnswer as q:
            if len(prefix) >= MAX_ANSWERS:
                # the loop keeps asking: under this sequence of answers it does not come to an end. The path is emitted without its
                # end (it cannot conform) and remembered for the failing-input report.
                DIVERGENT.append((shape, flags, list(env.log)))
                leaves.append(list(env.log)[:60])
                jug.hooks.reset_all_hooks()
                continue
            for a in reversed(q.dom):
                stack.append(prefix + [a])
            continue
        except SystemExit as e:
            env.log.append(('raise', 'sysExit', int(e.code or 0)))
        except KeyboardInterrupt:
            env.log.append(('raise', 'kbdInt'))
        except Exception as e:
            env.log.append(('raise', 'exc', type(e).__name__))
        finally:
            _time.sleep = real_sleep
            jug.hooks.reset_all_hooks()
            del jug.task.alltasks[:]
        leaves.append(list(env.log))
        if len(leaves) > max_leaves:
            raise RuntimeError('too many leaves')
    return leaves


def lean_event(e):
    k = e[0]
    if k == 'canLoad':
        return '.ev (.canLoad 0 %d %s)' % (e[1], 'true' if e[2] else 'false')
    if k == 'lock':
        return '.ev (.lock 0 %d %s)' % (e[1], 'true' if e[2] else 'false')
    if k == 'load':
        return '.ev (.load 0 %d ())' % e[1]
    if k == 'begin':
        return '.ev (.begin_ 0 %d)' % e[1]
    if k == 'endOk':
        return '.ev (.endOk 0 %d ())' % e[1]
    if k == 'endExc':
        return '.ev (.endExc 0 %d)' % e[1]
    if k == 'dump':
        return '.ev (.dump 0 %d ())' % e[1]
    if k == 'unlock':
        return '.ev (.unlock 0 %d)' % e[1]
    if k == 'markFailed':
        return '.ev (.markFailed 0 %d)' % e[1]
    if k == 'stop':
        return '.ev (.stop 0 %s)' % ('(.sysExit %d)' % e[2] if e[1] == 'sysExit' else '.kbdInt')
    if k == 'preExec':
        return '.preExec %d' % e[1]
    if k == 'executed1':
        return '.executed1 %d' % e[1]
    if k == 'ret':
        return '.ret %s' % ('true' if e[1] else 'false')
    if k == 'raise':
        if e[1] == 'sysExit':
            return '.raise (.stopped (.sysExit %d))' % e[2]
        if e[1] == 'kbdInt':
            return '.raise (.stopped .kbdInt)'
        return '.raise .taskException'
    raise ValueError(e)


SHAPES = [[[]], [[], [0]], [[], []]]


def all_paths(thorough=False):
    out = []
    for shape in SHAPES:
        for flags in itertools.product([False, True], repeat=3):
            hook_variants = [False, True] if len(shape) == 1 or thorough else [False]
            for hx in hook_variants:
                for p in explore(shape, flags, hx):
                    out.append((shape, flags, hx, p))
    return out


def emit(paths):
    lines = ['import JugModel.Model.ExecLocal', 'namespace Jug.Generated.Worker', 'open Jug.Exec', '',
             '/-- every root-to-leaf path of the real `jug.jug.execution_loop`, for task lists ' + str(SHAPES) + ' (dependency lists), all flag settings',
             '    (keepGoing, keepFailed, aggressiveUnload), every answer of the environment consistent with what the worker already saw',
             '    (emitted in chunks: one list literal with thousands of elements is slow to elaborate) -/']
    rows = []
    for shape, flags, hx, p in paths:
        deps = '[' + ', '.join('[' + ', '.join(str(d) for d in ds) + ']' for ds in shape) + ']'
        rows.append('  ⟨⟨%s, %s⟩, %s, [%s]⟩' % ('true' if flags[0] else 'false', 'true' if flags[1] else 'false', deps, ', '.join(lean_event(e) for e in p)))
    CH = 150
    names = []
    for i in range(0, len(rows), CH):
        nm = 'paths%d' % (i // CH)
        names.append(nm)
        lines.append('def %s : List (WPath) := [' % nm)
        lines.append(',\n'.join(rows[i:i + CH]))
        lines.append(']')
    lines.append('def paths : List (WPath) := ' + (' ++ '.join(names) if names else '[]'))
    lines.append('end Jug.Generated.Worker')
    return '\n'.join(lines) + '\n'
