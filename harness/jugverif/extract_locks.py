"""Extraction of the lock operations of every backend as decision trees over shared-state primitives.

Each operation of the *real* lock class is run against a scripted file system / redis / dict: at every primitive that touches
the lock's shared state the run branches over the primitive's whole answer domain. Emitted as Lean (Generated/LockTrees.lean).
"""
import builtins
import os
import types

DOM = {'exists_': ['yes', 'no'], 'openExcl': ['ok', 'err'], 'openTrunc': ['ok'], 'renameOver': ['ok'], 'unlink': ['ok', 'err'],
       'utimeFailed': ['ok', 'err'], 'stat': ['err', 'normal', 'marked', 'expired'], 'setnxL': ['one', 'zero'], 'del': ['one', 'zero'],
       'get': ['nil', 'valL', 'valF'], 'setL': ['ok'], 'setF': ['ok'], 'getsetL': ['nil', 'valL', 'valF'],
       'dGet': ['nil', 'valL', 'valF'], 'dSetL': ['ok'], 'dSetF': ['ok'], 'dDel': ['ok', 'err']}
OPS = ['get', 'release', 'is_locked', 'fail', 'is_failed']
LEAN_OP = {'get': 'get', 'release': 'release', 'is_locked': 'isLocked', 'fail': 'fail', 'is_failed': 'isFailed'}


class NeedAnswer(BaseException):
    def __init__(self, prim, dom):
        self.prim, self.dom = prim, dom


class Script:
    def __init__(self, answers):
        self.answers = list(answers)
        self.path = []          # (prim, answer)

    def ask(self, prim):
        dom = DOM.get(prim, ['ok'])
        if not self.answers:
            raise NeedAnswer(prim, dom)
        a = self.answers.pop(0)
        self.path.append((prim, a))
        return a


# ------------------------------------------------------------------------------------------ file system interposition

LOCKDIR = '/jugverif-virtual'
NOW = 2_000_000_000.0


def install_fs(script, lockname):
    """replace the names file_store.py uses for file-system access by scripted proxies; returns an undo function"""
    import jug.backends.file_store as fs
    saved = {k: fs.__dict__.get(k, None) for k in ('exists', 'os', 'path', 'open', 'Popen', 'time', 'tempfile')}
    had_open = 'open' in fs.__dict__

    def is_lock(p):
        return isinstance(p, (str, bytes)) and os.fspath(p) == lockname

    def s_exists(p):
        if is_lock(p):
            return script.ask('exists_') == 'yes'
        return os.path.exists(p)

    class OsProxy:
        def __getattr__(self, n):
            return getattr(os, n)

        def makedirs(self, *a, **k):
            return None

        def open(self, p, flags, *a, **k):
            if is_lock(p):
                if flags & os.O_CREAT and flags & os.O_EXCL:
                    if script.ask('openExcl') == 'err':
                        raise FileExistsError(17, 'File exists', p)
                elif flags & os.O_CREAT:
                    script.ask('openTrunc')
                else:
                    script.ask('other:open-without-creat')
                return os.open(os.devnull, os.O_RDWR)
            return os.open(p, flags, *a, **k)

        def unlink(self, p, *a, **k):
            if is_lock(p):
                if script.ask('unlink') == 'err':
                    raise FileNotFoundError(2, 'No such file', p)
                return None
            return os.unlink(p)
        remove = unlink

        def utime(self, p, times=None, **k):
            if is_lock(p):
                import jug.backends.file_store as fs2
                prim = 'utimeFailed' if times is not None and tuple(times) == tuple(fs2.file_based_lock._FAILED_TIMESTAMP) else 'other:utime'
                if script.ask(prim) == 'err':
                    raise FileNotFoundError(2, 'No such file', p)
                return None
            return os.utime(p, times, **k)

        def stat(self, p, *a, **k):
            if is_lock(p):
                a_ = script.ask('stat')
                if a_ == 'err':
                    raise FileNotFoundError(2, 'No such file', p)
                # 'expired': an old time stamp that is not the failed mark (what the lock of a dead keep-alive worker looks like); the model's
                # `sem` never gives this answer (age is C19's subject), but the branch is extracted and type-checked like every other
                return types.SimpleNamespace(st_mtime=(1 if a_ == 'marked' else (NOW - 7200.0 if a_ == 'expired' else NOW - 5.0)), st_size=10)
            return os.stat(p, *a, **k)

        def rename(self, a, b):
            if is_lock(b):
                script.ask('renameOver')
                return None
            if is_lock(a):
                script.ask('other:rename-lock-away')
                return None
            return None
        replace = rename

        def link(self, a, b, **k):
            if is_lock(b):
                if script.ask('openExcl') == 'err':
                    raise FileExistsError(17, 'File exists', b)
                return None

        def listdir(self, p):
            script.ask('other:listdir')
            return []

    class PathProxy:
        def __getattr__(self, n):
            return getattr(os.path, n)

        def exists(self, p):
            return s_exists(p)

    def s_open(p, mode='r', *a, **k):
        if is_lock(p):
            if 'x' in mode:
                if script.ask('openExcl') == 'err':
                    raise FileExistsError(17, 'File exists', p)
            elif 'w' in mode or 'a' in mode or '+' in mode:
                script.ask('openTrunc')
            else:
                script.ask('other:open-read')
            return builtins.open(os.devnull, 'w' if ('w' in mode or 'a' in mode or 'x' in mode) else 'r')
        return builtins.open(p, mode, *a, **k)

    class FakePopen:
        def __init__(self, *a, **k):
            pass

        def kill(self):
            pass

    class TmpProxy:
        def mkstemp(self, *a, **k):
            return os.open(os.devnull, os.O_RDWR), LOCKDIR + '/locks/tmpfile'
    fs.exists = s_exists
    fs.os = OsProxy()
    fs.path = PathProxy()
    fs.open = s_open
    fs.Popen = FakePopen
    fs.time = lambda: NOW
    fs.tempfile = TmpProxy()

    def undo():
        for k, v in saved.items():
            if k == 'open' and not had_open:
                fs.__dict__.pop('open', None)
            elif v is not None:
                setattr(fs, k, v)
    return undo


class ScriptedRedis:
    def __init__(self, script):
        self.s = script

    def _v(self, a):
        return {'nil': None, 'valL': b'L', 'valF': b'F'}[a]

    def setnx(self, k, v):
        return self.s.ask('setnxL' if v == b'L' else 'other:setnx-' + repr(v)) == 'one'

    def set(self, k, v, nx=False, ex=None, px=None, xx=False, **kw):
        if ex is not None or px is not None or kw:
            self.s.ask('other:set-with-expiry')
            return True
        if nx:
            return True if self.s.ask('setnxL' if v == b'L' else 'other:setnx') == 'one' else None
        self.s.ask('setL' if v == b'L' else ('setF' if v == b'F' else 'other:set'))
        return True

    def get(self, k):
        return self._v(self.s.ask('get'))

    def getset(self, k, v):
        return self._v(self.s.ask('getsetL' if v == b'L' else 'other:getset'))

    def delete(self, *ks):
        return 1 if self.s.ask('del') == 'one' else 0

    def exists(self, k):
        return 1 if self.s.ask('exists_') == 'yes' else 0

    def expire(self, k, t):
        self.s.ask('other:expire')
        return True

    def __getattr__(self, n):
        def f(*a, **k):
            self.s.ask('other:redis-' + n)
        return f


class ScriptedDict:
    """the `store` dict of dict_lock, entry of this lock only"""

    def __init__(self, script):
        self.s = script

    def _v(self, a, default=None):
        return {'nil': default, 'valL': 1, 'valF': 2}[a]

    def get(self, k, default=None):
        return self._v(self.s.ask('dGet'), default)

    def __getitem__(self, k):
        a = self.s.ask('dGet')
        if a == 'nil':
            raise KeyError(k)
        return self._v(a)

    def __contains__(self, k):
        return self.s.ask('dGet') != 'nil'

    def __setitem__(self, k, v):
        self.s.ask('dSetL' if v == 1 else ('dSetF' if v == 2 else 'other:dict-set'))

    def __delitem__(self, k):
        if self.s.ask('dDel') == 'err':
            raise KeyError(k)

    def pop(self, k, *d):
        if self.s.ask('dDel') == 'err':
            if d:
                return d[0]
            raise KeyError(k)


def make_lock(backend, script):
    """a fresh real lock object of `backend` wired to the scripted shared state; returns (lock, undo)"""
    if backend in ('file', 'keepalive'):
        import jug.backends.file_store as fs
        cls = fs.file_based_lock if backend == 'file' else fs.file_keepalive_based_lock
        name = 'a' * 40
        full = os.path.join(LOCKDIR, 'locks', name + '.lock')
        undo = install_fs(script, full)
        lock = cls(LOCKDIR, name)
        return lock, undo
    if backend == 'redis':
        import jug.backends.redis_store as rs
        return rs.redis_lock(ScriptedRedis(script), 'a' * 40), (lambda: None)
    if backend == 'dict':
        import jug.backends.dict_store as ds
        from collections import defaultdict
        return ds.dict_lock(ScriptedDict(script), defaultdict(int), 'a' * 40), (lambda: None)
    raise ValueError(backend)


def explore(backend, op, prelude=()):
    """all leaves (path, result) of one operation. prelude: operations performed first on the same lock object with a fixed
    script (e.g. a successful get before release for the keep-alive lock, so that its monitor handle exists)"""
    leaves = []
    stack = [[]]
    while stack:
        prefix = stack.pop()
        script = Script(prefix)
        lock, undo = make_lock(backend, script)
        try:
            try:
                r = getattr(lock, op)()
                res = ('bool', bool(r)) if isinstance(r, (bool, int)) and r is not None else ('none',)
                if r is None:
                    res = ('none',)
            except NeedAnswer as q:
                for a in reversed(q.dom):
                    stack.append(prefix + [a])
                continue
            except Exception as e:
                res = ('raised', type(e).__name__)
            leaves.append((list(script.path), res))
        finally:
            undo()
        if len(leaves) > 500:
            raise RuntimeError('lock tree too large')
    return leaves


def build_tree(leaves):
    """nested dict from the set of (path, result)"""
    if len(leaves) == 1 and not leaves[0][0]:
        return ('ret', leaves[0][1])
    prim = leaves[0][0][0][0]
    groups = {}
    order = []
    for path, res in leaves:
        assert path and path[0][0] == prim, ('non-deterministic primitive order', leaves)
        a = path[0][1]
        if a not in groups:
            groups[a] = []
            order.append(a)
        groups[a].append((path[1:], res))
    return ('prim', prim, [(a, build_tree(groups[a])) for a in order])


def lean_prim(p):
    if p.startswith('other:'):
        return '(.other "%s")' % p[6:]
    return '.' + p


def lean_tree(t):
    if t[0] == 'ret':
        r = t[1]
        if r[0] == 'bool':
            return '(.ret (.bool %s))' % ('true' if r[1] else 'false')
        if r[0] == 'none':
            return '(.ret .none)'
        return '(.ret .raised)'
    return '(.prim %s [%s])' % (lean_prim(t[1]), ', '.join('(.%s, %s)' % (a, lean_tree(c)) for a, c in t[2]))


BACKENDS = ['file', 'keepalive', 'redis', 'dict']


def all_trees():
    return {b: {op: build_tree(explore(b, op)) for op in OPS} for b in BACKENDS}


def emit(trees):
    lines = ['import JugModel.Model.Lock', 'namespace Jug.Generated.Locks', 'open Jug.Lock', '']
    for b in BACKENDS:
        lines.append('/-- lock operations of the `%s` backend as extracted from the real class (jug/backends) -/' % b)
        lines.append('def %sProgs : Progs := fun op => match op with' % b)
        for op in OPS:
            lines.append('  | .%s => %s' % (LEAN_OP[op], lean_tree(trees[b][op])))
        lines.append('')
    lines.append('end Jug.Generated.Locks')
    return '\n'.join(lines) + '\n'
