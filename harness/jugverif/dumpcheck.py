"""File-system level recording of the real result writes (file_store.dump / resave_pack / update_pack): translation to the model's
operation sequences (extraction) and, at every primitive boundary, reader / kill / power-loss checks on the real directory (C05)."""
import os
import shutil
import warnings

import numpy as np

from jugverif import core, fsgate
from jugverif.storecheck import vcanon

warnings.simplefilter('ignore')

KEY = b'abkey0000000000000000000000000000000000'
KEY2 = b'cdkey0000000000000000000000000000000000'


def cases():
    return [
        ('pickle-small', [1, 2, 3], False),
        ('pickle-large', list(range(60000)), False),
        ('str-large', 'ab\n' * 30000, False),
        ('none', None, False),
        ('npy', np.arange(1000), False),
        ('npy-large', np.arange(200000.0), False),
        ('npy-empty', np.zeros((0, 3)), False),
        ('npy-0d', np.array(3.5), False),
        ('npy-fortran', np.asfortranarray(np.arange(12.).reshape(3, 4)), False),
        ('npy-strided', np.arange(100)[::3], False),
        ('npy-object-small', np.array(['a', None, (1, 2)], dtype=object), False),
        ('npy-object-large', np.array(['s%d' % i for i in range(5000)], dtype=object), False),
        ('npy-datetime', np.array([1, 2], dtype='M8[s]'), False),
        ('npy-compressed', np.arange(1000), True),
        ('dict-of-arrays', {'a': np.arange(10), 'b': [1, 'x']}, False),
    ]


class Recorder:
    """hook for fsgate: records events; tracks the temp file and what is durable; optionally calls `probe(rec)` before every primitive"""

    def __init__(self, jugdir, probe=None):
        self.jugdir = os.path.abspath(jugdir)
        self.events = []
        self.probe = probe
        self.durable = {}       # path -> bytes known to be on disk
        self.pending = None
        self.temps = []
        self.in_probe = False

    def _apply_pending(self):
        p = self.pending
        self.pending = None
        if p is None:
            return
        if p[0] == 'fsync' and os.path.isfile(p[1]):
            self.durable[p[1]] = os.path.getsize(p[1])
        elif p[0] == 'rename':
            self.durable[p[1]] = self.durable.pop(p[2], 0)
        elif p[0] == 'unlink':
            self.durable.pop(p[1], None)

    def __call__(self, prim, path, *extra):
        if self.in_probe:
            return
        self._apply_pending()
        path = os.path.abspath(path) if isinstance(path, str) and path not in ('<fd>', '') else path
        sizes = {t: (os.path.getsize(t) if os.path.exists(t) else None) for t in self.temps}
        self.events.append((prim, path, extra, sizes))
        if prim == 'fdopen' and isinstance(path, str) and path not in self.temps:
            self.temps.append(path)
        if prim == 'fsync':
            self.pending = ('fsync', path)
        elif prim == 'rename':
            self.pending = ('rename', path, os.path.abspath(extra[0]))
        elif prim == 'unlink':
            self.pending = ('unlink', path)
        if self.probe is not None:
            self.in_probe = True
            try:
                self.probe(self, prim, path)
            finally:
                self.in_probe = False

    def finish(self):
        self._apply_pending()
        if self.probe is not None:
            self.in_probe = True
            try:
                self.probe(self, 'end', None)
            finally:
                self.in_probe = False


def translate(rec, final_paths):
    """recorded events -> FOp constructors (strings of Lean syntax) for the model"""
    out = []
    jd = rec.jugdir
    tempdir = os.path.join(jd, 'tempfiles')
    temp = None
    w_total = 0
    direct = 0
    pending_dirs = set()
    for prim, path, extra, sizes in rec.events:
        is_lock = isinstance(path, str) and (os.sep + 'locks' + os.sep) in path
        # bytes that reached the file without passing the Python file object (ndarray.tofile)
        if temp is not None and sizes.get(temp) is not None and sizes[temp] > w_total + direct:
            d = sizes[temp] - w_total - direct
            out.append('.writeDirect %d' % d)
            direct += d
        if prim == 'mkstemp':
            d = os.path.abspath(path) if path else ''
            out.append('.mkstemp' if d == tempdir else '.mkTempElsewhere')
        elif prim == 'fdopen':
            if is_lock:
                continue
            if temp is None or path != temp:
                temp = path
                w_total, direct = 0, 0
        elif prim == 'write':
            if is_lock:
                continue
            if path == temp:
                out.append('.write %d' % extra[0])
                w_total += extra[0]
            else:
                out.append('.other "write-to-%s"' % ('final' if path in final_paths else 'unknown'))
        elif prim == 'flush':
            if not is_lock:
                out.append('.flush')
        elif prim == 'fclose':
            if not is_lock:
                out.append('.close')
        elif prim == 'fsync':
            if isinstance(path, str) and os.path.isdir(path):
                out.append('.fsyncDir')
            else:
                out.append('.fsync')
        elif prim == 'rename':
            if path in final_paths and os.path.abspath(extra[0]) == temp:
                out.append('.rename')
            else:
                out.append('.other "rename-unexpected"')
        elif prim == 'open':
            if is_lock:
                out.append('.lockGet')
            elif isinstance(path, str) and os.path.isdir(path):
                pass            # fsync_dir opens the directory read-only
            elif path in final_paths:
                out.append('.openFinal')
            else:
                out.append('.other "open-%s"' % os.path.basename(str(path)))
        elif prim == 'unlink':
            if is_lock:
                out.append('.lockRelease')
            else:
                out.append('.other "unlink"')
        elif prim == 'link':
            out.append('.other "link"')
        elif prim == 'truncate':
            if path == temp:
                out.append('.truncate')
                w_total, direct = 0, 0
            else:
                out.append('.other "truncate-unexpected"')
        elif prim == 'failed':
            out.append('.failed')
        elif prim == 'raised':
            out.append('.raised')
        # exists / stat / makedirs / listdir / close(fd) / utime on non-lock paths: no effect on the written data
    return out


def record_dump(value, compress, scratch, tag, probe=None, prepare=None, key=KEY):
    from jug.backends.file_store import file_store
    jd = os.path.join(scratch, 'd-' + tag)
    store = file_store(jd, compress_numpy=compress)
    if prepare is not None:
        prepare(store)
        store = file_store(jd, compress_numpy=compress)
    rec = Recorder(jd, probe)
    undo = fsgate.install(rec, wrap_files=True)
    try:
        store.dump(value, key)
    finally:
        undo()
    rec.finish()
    final = {os.path.abspath(store._getfname(key)), os.path.abspath(store._packfile())}
    return rec, store, final


def record_resave(scratch, tag, probe=None):
    from jug.backends.file_store import file_store
    jd = os.path.join(scratch, 'd-' + tag)
    store = file_store(jd)
    store.dump('packed-value', KEY2)
    store.dump([1, 2], KEY)
    store.update_pack()
    store = file_store(jd)
    rec = Recorder(jd, probe)
    undo = fsgate.install(rec, wrap_files=True)
    try:
        store.resave_pack()
    finally:
        undo()
    rec.finish()
    return rec, store, {os.path.abspath(store._packfile())}


def record_failing(value, compress, scratch, tag, k):
    """the write of `value` with its k-th data primitive (write / flush / fsync on the temporary file) failing: recorded events with a `failed` mark in place of the
    primitive that failed and a final `raised` mark if dump() handed the error on. Returns (rec, store, final, fired, raised)"""
    import errno
    from jug.backends.file_store import file_store
    jd = os.path.join(scratch, 'd-' + tag)
    store = file_store(jd, compress_numpy=compress)
    store.dump('other-key-value', KEY2)
    store = file_store(jd, compress_numpy=compress)
    rec = Recorder(jd, None)
    st = {'n': 0, 'fired': None}

    def hook(prim, path, *extra):
        if prim in ('write', 'flush', 'fsync') and isinstance(path, str) and 'tempfiles' in path and not os.path.isdir(path) and not (prim == 'write' and extra and extra[0] == 0):
            st['n'] += 1
            if st['n'] == k:
                st['fired'] = prim
                rec('failed', path)
                raise OSError(errno.ENOSPC if prim != 'fsync' else errno.EIO, 'injected failure of %s' % prim)
        rec(prim, path, *extra)
    undo = fsgate.install(hook, wrap_files=True, plain_proxy=True)
    raised = False
    try:
        store.dump(value, KEY)
    except BaseException:
        raised = True
    finally:
        undo()
    if raised:
        rec('raised', '')
    rec.finish()
    final = {os.path.abspath(store._getfname(KEY)), os.path.abspath(store._packfile())}
    return rec, store, final, st['fired'], raised


def failing_cases():
    import numpy as np
    return [('pickle-small', {'a': [1, 2, 3]}, False), ('pickle-large', list(range(30000)), False), ('array-raw', np.arange(3000.0), False), ('array-compressed', np.arange(3000.0), True),
            ('array-object', np.array([{'k': 1}, 'x'], dtype=object), False)]


def split_sequences(ops):
    """a recorded run may contain several writes (result file, then pack rewrite): split after each rename"""
    seqs, cur = [], []
    for o in ops:
        cur.append(o)
        if o == '.rename':
            seqs.append(cur)
            cur = []
    if cur:
        # trailing operations (lock release) belong to the last write
        if seqs:
            seqs[-1] += cur
        else:
            seqs.append(cur)
    return seqs


def extract(scratch):
    rows = []
    for name, value, compress in cases():
        rec, store, final = record_dump(value, compress, scratch, name)
        ops = translate(rec, final)
        rows.append((name, ops))
    rec, store, final = record_resave(scratch, 'resave')
    rows.append(('resave-pack', translate(rec, final)))
    # overwrite of a packed key: result file first, then the pack rewrite
    def prep(store):
        store.dump('old', KEY)
        store.dump('other', KEY2)
        store.update_pack()
    rec, store, final = record_dump('new-value', False, scratch, 'packed-overwrite', prepare=prep)
    ops = translate(rec, final)
    parts = split_sequences(ops)
    renames = [(p, e) for p, e, x, s in [(ev[0], ev[1], ev[2], ev[3]) for ev in rec.events] if p == 'rename']
    publishes_first = len(renames) == 2 and renames[0][1] == os.path.abspath(store._getfname(KEY)) and renames[1][1] == os.path.abspath(store._packfile())
    for i, p in enumerate(parts):
        rows.append(('packed-overwrite-%d' % i, p))
    txt = 'import JugModel.Model.FS\nnamespace Jug.Generated.Dump\nopen Jug.FS\n'
    txt += '/-- file-system operation sequences of the real file_store.dump / resave_pack, recorded for representative values -/\n'
    txt += 'def sequences : List (String × List FOp) := [\n'
    txt += ',\n'.join('  ("%s", [%s])' % (n, ', '.join(o)) for n, o in rows)
    txt += ']\n'
    txt += 'def packedOverwritePublishesFirst : Bool := %s\n' % ('true' if publishes_first else 'false')
    # the same writes with their k-th data primitive failing, for every k
    frows = []
    for name, value, compress in failing_cases():
        k = 1
        while k < 16:
            rec, store, final, fired, raised = record_failing(value, compress, scratch, 'fail-%s-%d' % (name, k), k)
            if fired is None:
                break
            frows.append(('%s-fails-at-%d-%s' % (name, k, fired), translate(rec, final)))
            k += 1
    txt += '/-- the same writes with their k-th data primitive (write / flush / fsync on the temporary file) reporting an error, for every k: what the real dump() does then -/\n'
    txt += 'def failingSequences : List (String × List FOp) := [\n'
    txt += ',\n'.join('  ("%s", [%s])' % (n, ', '.join(o)) for n, o in frows)
    txt += ']\n'
    txt += '/-- the commands redis_store.dump sends that change the result key, per case (overwrite of an existing key) -/\n'
    txt += 'def redisDumpCommands : List (String × List String) := [\n'
    txt += ',\n'.join('  ("%s", [%s])' % (n, ', '.join('"%s"' % c for c in cmds)) for n, cmds in redis_commands())
    txt += ']\n'
    txt += 'end Jug.Generated.Dump\n'
    core.write_generated('DumpSeqs', txt)
    return rows


def redis_cases():
    # the redis write must be one command whatever the size (values above typical chunking thresholds included)
    rs = np.random.RandomState(12345)      # incompressible, so that the encoded value really is that large
    return cases() + [('bytes-9MiB', rs.bytes(9 * 1024 * 1024 + 17), False), ('npy-10MB', rs.random_sample(1300000), False)]


def redis_commands(probe=None):
    """mutating commands on the result key sent by the real redis_store.dump (overwrite of an existing value), per case"""
    from jugverif import fakeredis
    out = []
    for name, value, compress in redis_cases():
        srv = fakeredis.FakeServer()
        st = fakeredis.make_store(srv)
        st.dump(['old', 1], KEY)
        del srv.log[:]
        if probe is not None:
            srv.hook = lambda cmd, k, srv=srv, name=name, value=value: probe(srv, name, value, cmd, k)
        st.dump(value, KEY)
        srv.hook = None
        out.append((name, [c for c, k in srv.log if c not in ('GET', 'EXISTS', 'KEYS')]))
        if probe is not None:
            probe(srv, name, value, 'end', None)
    return out


# ------------------------------------------------------------------------------------------------ crash / reader probes

def reader_view(jugdir, keys, compress=False):
    """what a fresh process / concurrent reader sees: {key: canon | 'EXC ...'} for loadable keys, and the listing"""
    from jug.backends.file_store import file_store
    out = {}
    try:
        s = file_store(jugdir, compress_numpy=compress)
    except Exception as e:
        return {'__open__': 'EXC %s: %s' % (type(e).__name__, str(e)[:80])}, []
    for k in keys:
        try:
            if s.can_load(k):
                out[k] = vcanon(s.load(k))
        except Exception as e:
            out[k] = 'EXC %s: %s' % (type(e).__name__, str(e)[:80])
    try:
        listing = list(s.list())
    except Exception as e:
        listing = ['EXC %s' % type(e).__name__]
    return out, listing
