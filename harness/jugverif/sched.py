"""Deterministic multi-worker execution of the real jug worker loop.

Each worker is a thread running the real `jug.jug.execution_loop` on its own load of the jugfile (own Task objects, own
store object on the shared backend). Every store / lock call and every task-function entry/exit is a *gate*: the thread
blocks until the scheduler (driven by one PRNG) lets it proceed, so exactly one worker moves between two gates and the
recorded event list is a sequentially consistent history that can be replayed through the Lean transition system.
A worker can be *killed* at any gate (it never performs another shared-state effect) to model SIGKILL.
"""
import os
import sys
import threading

import jug
import jug.task
import jug.jug
import jug.hooks
from jug.hooks import register

from jugverif import lib, jugenv


CURRENT = None      # the scheduler of the run in progress (for interposed functions such as time.sleep)


class Killed(BaseException):
    """the simulated process is dead: unwinds the thread without touching shared state"""


class Sched:
    def __init__(self, nworkers, rng, policy=None):
        self.n = nworkers
        self.rng = rng
        self.cv = threading.Condition()
        self.waiting = {}            # worker -> pending event description
        self.turn = None
        self.done = set()
        self.killed = set()
        self.trace = []              # events in the order they were allowed to happen (filled by the gates after the call)
        self.steps = 0
        self.policy = policy         # callable(sched, runnable) -> worker or None (default random)
        self.kill_plan = {}          # worker -> kill at its n-th gate
        self.gates = {}              # worker -> number of gates passed
        self.max_steps = 40000       # legitimate runs need a few hundred to a few thousand steps
        self.runaway = False
        self.stall = {}              # worker -> predicate(sched) -> bool: do not schedule while true
        self.pending_lock = {}       # worker -> task whose lock.get() is in progress (fs-level gating)
        self.pending_dump = {}       # worker -> dump event whose write is in progress

    # called by worker threads
    def gate(self, w, what):
        with self.cv:
            if w in self.killed:
                raise Killed()
            self.waiting[w] = what
            self.cv.notify_all()
            while self.turn != w:
                self.cv.wait()
                if w in self.killed:
                    self.waiting.pop(w, None)
                    raise Killed()
            self.turn = None
            del self.waiting[w]
            self.gates[w] = self.gates.get(w, 0) + 1
            if self.kill_plan.get(w) == self.gates[w]:
                self.killed.add(w)
                self.trace.append(('crash', w))
                self.cv.notify_all()
                raise Killed()

    def record(self, ev):
        self.trace.append(ev)

    def finish(self, w):
        with self.cv:
            self.done.add(w)
            self.waiting.pop(w, None)
            self.cv.notify_all()

    # scheduler loop (main thread)
    def run(self):
        import time as _time
        while True:
            with self.cv:
                t_wait = _time.time()
                while True:
                    alive = self.n - len(self.done)
                    if alive == 0:
                        return
                    if self.turn is None and len(self.waiting) == alive:
                        break
                    self.cv.wait(0.005)
                    if _time.time() - t_wait > 30:
                        # a worker has been running for 30 s without reaching a gate (store / lock access, function entry, sleep): the task
                        # functions of the harness return at once, so it is spinning in a loop of its own. It cannot be stopped from here
                        # (it never reaches a gate); the run is abandoned and reported.
                        self.runaway = True
                        self.spinning_free = [w_ for w_ in range(self.n) if w_ not in self.done and w_ not in self.waiting]
                        for w_ in range(self.n):
                            if w_ not in self.done:
                                self.killed.add(w_)
                        self.cv.notify_all()
                        return
                runnable = sorted(w for w in self.waiting if not (w in self.stall and self.stall[w](self)))
                if not runnable:
                    runnable = sorted(self.waiting)      # everybody stalled: release the stall
                    self.stall.clear()
                w = None
                if self.policy is not None:
                    w = self.policy(self, runnable)
                if w is None:
                    w = self.rng.choice(runnable)
                self.steps += 1
                if self.steps > self.max_steps:
                    # the workers do not come to an end: stop them (every gate raises Killed from now on) and report it
                    self.runaway = True
                    for w_ in range(self.n):
                        if w_ not in self.done:
                            self.killed.add(w_)
                    self.cv.notify_all()
                    return
                self.turn = w
                self.cv.notify_all()


class GStore:
    """gating + tracing wrapper around a real store object, for one worker"""

    def __init__(self, base, sched, w, index):
        self.base, self.sched, self.w, self.index = base, sched, w, index

    def _t(self, name):
        if isinstance(name, str):
            name = name.encode('utf-8')
        return self.index.get(name, -1)

    def can_load(self, name):
        self.sched.gate(self.w, ('can_load', self._t(name)))
        r = bool(self.base.can_load(name))
        self.sched.record(('canLoad', self.w, self._t(name), r))
        return r

    def load(self, name):
        self.sched.gate(self.w, ('load', self._t(name)))
        v = self.base.load(name)
        self.sched.record(('load', self.w, self._t(name), lib.canon(v)))
        return v

    def dump(self, value, name):
        self.sched.gate(self.w, ('dump', self._t(name)))
        ev = ('dump', self.w, self._t(name), lib.canon(value))
        self.sched.pending_dump[self.w] = ev
        self.base.dump(value, name)
        # with file-system gates the event has already been recorded at its linearisation point (the rename onto the final name)
        if self.sched.pending_dump.pop(self.w, None) is not None:
            self.sched.record(ev)

    def getlock(self, name):
        return GLock(self.base.getlock(name), self.sched, self.w, self._t(name))

    def __getattr__(self, n):
        return getattr(self.base, n)


class GLock:
    def __init__(self, base, sched, w, t):
        self.base, self.sched, self.w, self.t = base, sched, w, t

    def get(self):
        self.sched.gate(self.w, ('lock', self.t))
        self.sched.record(('lockAttempt', self.w, self.t))
        self.sched.pending_lock[self.w] = self.t
        r = bool(self.base.get())
        if self.sched.pending_lock.pop(self.w, None) is not None:
            self.sched.record(('lock', self.w, self.t, r))
        return r

    def release(self):
        self.sched.gate(self.w, ('unlock', self.t))
        self.base.release()
        self.sched.record(('unlock', self.w, self.t))

    def fail(self):
        self.sched.gate(self.w, ('fail', self.t))
        r = self.base.fail()
        self.sched.record(('markFailed', self.w, self.t))
        return r

    def is_locked(self):
        return self.base.is_locked()

    def is_failed(self):
        return self.base.is_failed()


def wrap_function(t, idx, sched, w):
    """gate + trace entry and exit of the task function of Task `t` (instance attribute; the hash is not affected)"""
    f = t.f

    def g(*a, **kw):
        sched.gate(w, ('begin', idx))
        sched.record(('begin', w, idx))
        try:
            r = f(*a, **kw)
        except Killed:
            raise
        except SystemExit as e:
            sched.gate(w, ('stop', idx))
            sched.record(('stop', w, 'sysExit', int(e.code or 0)))
            raise
        except KeyboardInterrupt:
            sched.gate(w, ('stop', idx))
            sched.record(('stop', w, 'kbdInt'))
            raise
        except Exception:
            sched.gate(w, ('endExc', idx))
            sched.record(('endExc', w, idx))
            raise
        sched.gate(w, ('endOk', idx))
        sched.record(('endOk', w, idx, lib.canon(r)))
        return r
    t.f = g


def load_jugfile(path, store):
    """load the jugfile once (as `jug execute` does at start-up): returns (tasks in creation order, jugspace)"""
    del jug.task.alltasks[:]
    saved = jug.task.Task.store
    jug.task.Task.store = store
    try:
        _, space = jug.jug.init(path, store=store)
    finally:
        jug.task.Task.store = saved
    tasks = list(jug.task.alltasks)
    for t in tasks:
        t.hash()
    del jug.task.alltasks[:]
    return tasks, space


def index_tasks(tasks, fixed=None):
    """hash -> model task index (creation order, duplicates share the index of their first occurrence). With `fixed` (the index of an earlier
    analysis of the same jugfile) that numbering is kept: a jugfile that goes on filling a container after handing it to a task creates the
    dependent before its dependencies, and the model numbers tasks in an order in which they can run."""
    index, order = {}, []
    for t in tasks:
        h = t.hash()
        if h not in index:
            index[h] = len(order)
            order.append(t)
    if fixed is not None and set(fixed) == set(index):
        order = sorted(order, key=lambda t: fixed[t.hash()])
        index = {t.hash(): i for i, t in enumerate(order)}
    return index, order


class LoadTracer:
    """store wrapper used for the sequential analysis run: which results does each task read?"""

    def __init__(self, base):
        self.base = base
        self.loads = []

    def load(self, name):
        self.loads.append(name if isinstance(name, bytes) else name.encode())
        return self.base.load(name)

    def __getattr__(self, n):
        return getattr(self.base, n)


def analyse(path, make_store):
    """sequential single-worker run on a fresh store with every cache dropped before each task:
    returns per model task: value (canon), the set of tasks whose stored results it really reads (semantic dependencies),
    what Task.dependencies() reports, and the top-level values"""
    store = make_store()
    tr = LoadTracer(store)
    tasks, space = load_jugfile(path, tr)
    index0, order0 = index_tasks(tasks)
    for t in tasks:
        t.store = tr
    # run every task once, in creation order; a task whose arguments cannot be resolved yet (its jugfile filled a container with tasks after
    # handing it over, so the dependent was created first) is tried again after the others: the model numbers tasks in completion order
    done, pending, raw = [], list(order0), {}
    while pending:
        later, last_exc = [], None
        for t in pending:
            for u in tasks:
                u.unload()
            del tr.loads[:]
            can_run = t.can_run()
            try:
                t.run()
            except (AssertionError, KeyError, IOError, ValueError) as e:
                last_exc = e
                later.append(t)
                continue
            raw[id(t)] = (lib.canon(t.value()), list(tr.loads), can_run)
            done.append(t)
        if len(later) == len(pending):
            raise last_exc
        pending = later
    order = done
    index = {t.hash(): i for i, t in enumerate(order)}
    info = []
    for t in order:
        val, loads, can_run = raw[id(t)]
        reported = sorted({index[d.hash()] for d in t.dependencies()})
        reported_again = sorted({index[d.hash()] for d in t.dependencies()})
        reads = sorted({index[h] for h in loads if h in index})
        info.append({'name': t.name, 'value': val, 'reads': reads, 'reported': reported, 'can_run': can_run, 'reported_again': reported_again})
    for u in tasks:
        u.unload()
    top = {}
    ns_names = set(lib.jug_namespace())
    for k, v in space.items():
        # every variable the program itself defines (generated v<n> names and the short names of the fixed programs)
        if (k.startswith('v') and k[1:].isdigit()) or (not k.startswith('_') and k not in ns_names and len(k) <= 3 and k.isidentifier() and k not in ('jug', 'sys', 'os')):
            try:
                top[k] = jug.task.value(v)
            except Exception as e:
                top[k] = 'EXC %s: %s' % (type(e).__name__, str(e)[:80])
    return index, order, info, top, store


def run_workers(path, make_worker_store, nworkers, rng, flags=None, policy=None, kill_plan=None, index=None, late=None, max_tasks=None, opts_extra=None, fs_gates=False):
    """run `nworkers` real worker loops under the gated scheduler. make_worker_store(w) -> store object for worker w (all on one backend).
    flags[w] = (keep_going, keep_failed, aggressive_unload). Returns (trace, results per worker)."""
    global CURRENT
    sched = Sched(nworkers, rng, policy)
    CURRENT = sched
    if kill_plan:
        sched.kill_plan = dict(kill_plan)
    results = {}
    loaded = []
    for w in range(nworkers):
        base = make_worker_store(w)
        tasks, space = load_jugfile(path, base)
        gs = GStore(base, sched, w, index)
        for t in tasks:
            t.store = gs
            wrap_function(t, index.get(t.hash(), -1), sched, w)
        loaded.append((tasks, space, base))
    jug.hooks.reset_all_hooks()
    executed = {}
    undo_fs = None
    if fs_gates:
        # additionally gate every file-system primitive on lock files: workers interleave *inside* lock operations, and can be killed there
        from jugverif import fsgate

        def fhook(prim, path, *extra):
            w = getattr(lib.TL, 'w', None)
            if w is not None and isinstance(path, str) and (os.sep + 'locks' + os.sep) in path and prim in ('exists', 'open', 'fdopen', 'unlink', 'utime', 'stat', 'rename', 'link'):
                if prim == 'fdopen' and w in sched.pending_lock:
                    # the O_EXCL creation has just succeeded: this is the linearisation point of a winning get()
                    sched.record(('lock', w, sched.pending_lock.pop(w), True))
                sched.gate(w, ('fs', prim))
            elif w is not None and isinstance(path, str) and w in sched.pending_dump and prim in ('mkstemp', 'fsync', 'rename'):
                # inside a result write: the worker can be descheduled / killed before creating the temp file, with the temp file written, and before the rename
                sched.gate(w, ('fs', 'dump-' + prim))
                if prim == 'rename' and (os.sep + 'packs' + os.sep) not in path and w in sched.pending_dump:
                    # nothing can run between here and the rename itself: this is the linearisation point of the write
                    sched.record(sched.pending_dump.pop(w))
        undo_fs = fsgate.install(fhook)

    def on_executed(t):
        w = getattr(lib.TL, 'w', None)
        executed[w] = executed.get(w, 0) + 1
        if max_tasks and w in max_tasks and executed[w] >= max_tasks[w]:
            # JUG_MAX_TASKS: exit(0) from the task-executed1 hook
            sched.gate(w, ('stop-hook', -1))
            sched.record(('stop', w, 'sysExit', 0))
            raise SystemExit(0)
    register.register_hook('execute.task-executed1', on_executed)

    def worker(w):
        lib.TL.w = w
        tasks = loaded[w][0]
        o = jugenv.options()
        f = (flags or {}).get(w, (False, False, False))
        o.execute_keep_going, o.execute_keep_failed, o.aggressive_unload = f
        o.execute_nr_wait_cycles = 40
        o.execute_wait_cycle_time = 0
        o.execute_target = None
        for k, v in (opts_extra or {}).items():
            setattr(o, k, v)
        try:
            if late and w in late:
                # a worker that joins later: it does nothing until `late[w]` events have happened
                sched.stall[w] = (lambda s, n=late[w]: len(s.trace) < n)
            sched.gate(w, ('start', -1))
            r = jug.jug.execution_loop(list(tasks), o)
            sched.gate(w, ('exit', -1))
            code = 1 if r else 0
            sched.record(('exit', w, code))
            results[w] = ('ret', bool(r))
        except Killed:
            results[w] = ('runaway',) if sched.runaway else ('killed',)
        except SystemExit as e:
            try:
                sched.gate(w, ('exit', -1))
                sched.record(('exit', w, int(e.code or 0)))
            except Killed:
                pass
            results[w] = ('SystemExit', int(e.code or 0))
        except KeyboardInterrupt:
            try:
                sched.gate(w, ('exit', -1))
                sched.record(('exit', w, 130))
            except Killed:
                pass
            results[w] = ('KeyboardInterrupt',)
        except BaseException as e:
            try:
                sched.gate(w, ('exit', -1))
                sched.record(('exit', w, 1))
            except Killed:
                pass
            results[w] = ('raise', type(e).__name__, str(e)[:200])
        finally:
            sched.finish(w)
    threads = [threading.Thread(target=worker, args=(w,), name='w%d' % w, daemon=True) for w in range(nworkers)]
    for t in threads:
        t.start()
    try:
        sched.run()
    finally:
        for t in threads:
            t.join(timeout=20 if not sched.runaway else 1)
        for w_ in getattr(sched, 'spinning_free', []):
            results.setdefault(w_, ('runaway',))
        if undo_fs:
            undo_fs()
        jug.hooks.reset_all_hooks()
    return sched.trace, results, loaded
