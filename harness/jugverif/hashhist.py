"""Identifiers along histories (C07, C08): real code only.

1. `order_ids(eager)`: a list of statements builds tasks, mapped sequences and views of views. In the eager variant the identifier of every
   object is computed as soon as the object exists (what `bvalue`, `barrier()`, `CompoundTask`, `CachedFunction` or an interactive session do
   while a jugfile is still being loaded); in the lazy variant only after all statements. The identifier of an expression must not depend on
   that (C07), and expressions that select different operands must get different identifiers in both variants (C08: `DISTINCT`).
2. `history_ids(...)`: a jugfile with compound tasks, mapped sequences and ordinary tasks is loaded on an empty store, executed, loaded again
   - in the same interpreter and in fresh ones with other string-hash seeds; the identifier of every top-level name (both `hash()`, the key
   under which the result is stored, and what `hash_one` gives for the object when it is embedded in another task's arguments) must be the same
   at every stage.
"""
import json
import os
import subprocess
import sys

from jugverif import core

STATEMENTS = [
    ('m', 'jmap(hm._m21, list(range(10)), map_step=3)'),
    ('v', 'm[1:8]'),
    ('w', 'v[2:5]'),
    ('w2', 'v[::2]'),
    ('w3', 'v[1:]'),
    ('x', 'w[1]'),
    ('u', 'jmap(hm._m21, v, map_step=2)'),
    ('u2', 'jmap(hm._m21, w, map_step=2)'),
    ('u3', 'jmap(hm._m21, w3, map_step=2)'),
    ('tv', 'Task(hm.f, v)'),
    ('tw', 'Task(hm.f, w)'),
    ('tw2', 'Task(hm.f, w2)'),
    ('tw3', 'Task(hm.f, w3)'),
    ('b', 'Task(hm.g, 3)'),
    ('b1', 'b[1]'),
    ('b12', 'b1[2]'),
    ('b13', 'b1[3]'),
    ('bs', 'b[1:3]'),
    ('bs0', 'bs[0]'),
    ('bs1', 'bs[1]'),
    ('tb1', 'Task(hm.f, b1)'),
    ('tb12', 'Task(hm.f, b12)'),
    ('tb13', 'Task(hm.f, b13)'),
    ('tbs0', 'Task(hm.f, [bs0, 1])'),
    ('tbs1', 'Task(hm.f, [bs1, 1])'),
    ('it', 'list(iteratetask(b, 3))'),
    ('ti0', 'Task(hm.f, it[0])'),
    ('ti2', 'Task(hm.f, it[2])'),
    ('k', 'Task(hm.g, 1)'),
    ('bk', 'b[k]'),
    ('bk0', 'bk[0]'),
    ('tbk', 'Task(hm.f, bk)'),
    ('tbk0', 'Task(hm.f, bk0)'),
    ('mr', 'mapreduce(hm.f, hm._m21, list(range(7)), map_step=2, reduce_step=3)'),
    ('tmr', 'Task(hm.f, mr, key=v)'),
]

# names whose identifiers must be pairwise different (they select different elements / are different invocations)
DISTINCT = [['v', 'w', 'w2', 'w3'], ['u', 'u2', 'u3'], ['tv', 'tw', 'tw2', 'tw3'], ['b1', 'b12', 'b13', 'bs', 'bs0', 'bs1', 'bk', 'bk0'],
            ['tb1', 'tb12', 'tb13', 'tbs0', 'tbs1', 'tbk', 'tbk0', 'ti0', 'ti2']]


def order_ids(eager):
    import jug.task
    from jug import Task, iteratetask
    from jug.hash import hash_one
    from jug.mapreduce import map as jmap, mapreduce
    from jugverif import hashmodel as hm
    del jug.task.alltasks[:]
    ns = dict(Task=Task, iteratetask=iteratetask, jmap=jmap, mapreduce=mapreduce, hm=hm)
    out = {}

    def ident(name):
        try:
            return hash_one(ns[name]).decode()
        except Exception as e:
            return 'EXC %s: %s' % (type(e).__name__, str(e)[:80])
    for name, expr in STATEMENTS:
        ns[name] = eval(expr, ns)
        if eager:
            out[name] = ident(name)
    if not eager:
        for name, _ in STATEMENTS:
            out[name] = ident(name)
    else:
        # ... and once more at the end: asking twice gives the same answer
        for name, _ in STATEMENTS:
            again = ident(name)
            if again != out[name]:
                out[name] = '%s then %s' % (out[name], again)
    del jug.task.alltasks[:]
    return out


def order_family(run, prop):
    core.CURRENT_INPUT.clear()
    core.CURRENT_INPUT.update({'family': 'identifiers computed while the objects are being built vs afterwards', 'statements': STATEMENTS})
    lazy, eager = order_ids(False), order_ids(True)
    run.case(('ident-order', prop), nontrivial=True)
    run.count('identifier_order_statements', len(STATEMENTS))
    stmts = dict(STATEMENTS)
    if prop == 'C07':
        for name, _ in STATEMENTS:
            if lazy[name] != eager[name] or lazy[name].startswith('EXC'):
                run.fail('identifier-depends-on-order', 'the identifier of `%s = %s` is %s when identifiers are computed after all objects exist, but %s when the identifier of every object is computed as soon '
                         'as it exists (statements: %s)' % (name, stmts[name], lazy[name][:60], eager[name][:90], '; '.join('%s = %s' % s_ for s_ in STATEMENTS[:STATEMENTS.index((name, stmts[name])) + 1])),
                         {'kind': 'ident-order', 'name': name})
                break
    else:
        for mode, ids in (('after all objects exist', lazy), ('as soon as each object exists', eager)):
            for group in DISTINCT:
                seen = {}
                for name in group:
                    if ids[name] in seen:
                        run.fail('distinct-views-share-identifier', '`%s = %s` and `%s = %s` select different operands but share the identifier %s (identifiers computed %s)'
                                 % (seen[ids[name]], stmts[seen[ids[name]]], name, stmts[name], ids[name][:16], mode), {'kind': 'ident-order', 'names': [seen[ids[name]], name], 'mode': mode})
                        return
                    seen[ids[name]] = name
    core.CURRENT_INPUT.clear()


HIST_JUGFILE = '''
from jug import TaskGenerator, CompoundTask
from jug.mapreduce import map as jmap

@TaskGenerator
def part(i):
    return i * 2

@TaskGenerator
def total(xs):
    return sum(xs)

def dbl(x):
    return 2 * x

def build(n):
    return total([part(i) for i in range(n)])

def build2(n):
    return (part(n + 10), total([part(n + 10), part(n + 11)]))

# a function that lives in an imported module (it survives reloads of the jugfile in the same interpreter): used through TaskGenerator and handed to map as it is
from histlib import libf, libg
tlibf = TaskGenerator(libf)
x1 = tlibf(3)
ml = jmap(libf, list(range(6)), map_step=2)
tlibg = TaskGenerator(libg)
ml2 = jmap(tlibg, list(range(4)), map_step=3)
x2 = tlibg(4)
sl = total(ml[1:4])
sl2 = total(ml2)
sl3 = total(ml2[1:3])
c1 = CompoundTask(build, 3)
c2 = CompoundTask(build, 4)
c3 = CompoundTask(build2, 2)
d = total([c1, c2])
e = part(7)
m = jmap(dbl, list(range(5)), map_step=2)
s = m[1:4]
k = total(s)
j = total([c3[1], e])
TOP = ['c1', 'c2', 'c3', 'd', 'e', 'k', 'j', 'x1', 'x2', 'sl', 'sl2', 'sl3']
# several task generators handed to map, and many views of mapped sequences and of compounds: objects that are created anew - at other addresses - by every load
m3 = jmap(part, [1, 2, 3], map_step=2)
m4 = jmap(total, [[1, 2], [3], [4, 5]], map_step=1)
sl4 = total(m3)
sl5 = total(m4[0:2])
for _i in range(4):
    globals()['kv%d' % _i] = total([ml[_i], m[_i], m3[_i % 3], c3[0]])
TOP += ['sl4', 'sl5', 'kv0', 'kv1', 'kv2', 'kv3']
'''

HIST_SCRIPT = '''
import json, sys, os
sys.path.insert(0, os.path.dirname(os.path.abspath(sys.argv[1])))
import jug, jug.task
from jug.hash import hash_one
from jug.backends.file_store import file_store

def load():
    del jug.task.alltasks[:]
    jug.task.Task.store = file_store(sys.argv[2])
    store, space = jug.jug.init(sys.argv[1], sys.argv[2])
    return store, space

def ids(space):
    out = {}
    for name in space['TOP']:
        t = space[name]
        out[name] = [t.hash().decode() if hasattr(t, 'hash') else None, hash_one(t).decode()]
    return out

def ids_all(space):
    # ... and of every task of the file (comparable between loads against the same store state only)
    import hashlib
    out = ids(space)
    h = hashlib.sha1(b','.join(t.hash() for t in jug.task.alltasks)).hexdigest()
    out['<all tasks of the file, in order>'] = [h, h]
    return out

stages = {}
store, space = load()
stages['loaded'] = ids(space)
if sys.argv[3] == 'execute':
    tasks = list(jug.task.alltasks)
    for _ in range(len(tasks) + 1):
        for t in tasks:
            if not t.can_load() and t.can_run():
                t.run()
    stages['after execute (same objects)'] = ids(space)
    store, space = load()
    stages['loaded again after execute'] = ids(space)
    store, space = load()
    stages['loaded a third time in the same interpreter'] = ids(space)
if sys.argv[3] == 'reload-many':
    # a worker waiting at a barrier loads its jugfile over and over in one interpreter: every load must give the identifiers of the first
    import gc
    first = ids_all(space)
    stages = {'load #1 of this interpreter': first}
    n = int(sys.argv[4])
    for k in range(2, n + 2):
        store, space = load()
        gc.collect()
        cur = ids_all(space)
        if cur != first or k == n + 1:
            stages['load #%d in the same interpreter' % k] = cur
            break
print('STAGES ' + json.dumps(stages))
'''


def history_family(run):
    d = core.scratch_dir('jugverif-hist-')
    try:
        jf = os.path.join(d, 'histjf.py')
        open(jf, 'w').write(HIST_JUGFILE)
        open(os.path.join(d, 'histlib.py'), 'w').write('def libf(x):\n    return x + 100\n\n\ndef libg(x):\n    return x * 7\n')
        jugdir = os.path.join(d, 'store')
        core.CURRENT_INPUT.clear()
        core.CURRENT_INPUT.update({'family': 'identifiers of top-level names before execute, after it, after reloading - in one interpreter and in fresh ones', 'jugfile': HIST_JUGFILE})
        stages = []
        for seed, mode in (('5', 'execute'), ('6', 'load'), ('7', 'reload-many')):
            env = dict(os.environ, PYTHONPATH=core.REPO, PYTHONHASHSEED=seed, HOME='/nonexistent-home-for-jugverif')
            p = subprocess.run([sys.executable, '-c', HIST_SCRIPT, jf, jugdir, mode, '150'], cwd=d, env=env, stdout=subprocess.PIPE, stderr=subprocess.PIPE, text=True, timeout=300)
            line = [ln for ln in p.stdout.splitlines() if ln.startswith('STAGES ')]
            if p.returncode != 0 or not line:
                run.fail('history-raises', 'loading / executing the jugfile with compound tasks and mapped sequences fails in a fresh interpreter (%s): %s' % (mode, (p.stderr or p.stdout)[-400:]), {'kind': 'ident-history'})
                return
            for k, v in json.loads(line[-1][7:]).items():
                stages.append(('%s [interpreter with PYTHONHASHSEED=%s]' % (k, seed), v))
        run.case(('ident-history',), nontrivial=True)
        run.count('identifier_history_stages', len(stages))
        ref_name, ref = stages[0]
        for name in ref:
            for sname, ids in stages:
                if name in ids and ids[name] != ref[name]:
                    which = 0 if ids[name][0] != ref[name][0] else 1
                    run.fail('identifier-changes-along-history', 'the identifier of the top-level name %s (%s) is %s at stage "%s" but %s at stage "%s" (same jugfile, same store)'
                             % (name, 'hash(): the key its result is stored under' if which == 0 else 'as hashed when it is an argument of another task', ref[name][which] and ref[name][which][:16], ref_name,
                                ids[name][which] and ids[name][which][:16], sname), {'kind': 'ident-history', 'name': name, 'stage': sname})
                    return
        allk = '<all tasks of the file, in order>'
        many = [(sn, ids) for sn, ids in stages if allk in ids]
        for sn, ids in many[1:]:
            if ids[allk] != many[0][1][allk]:
                run.fail('identifier-changes-along-history', 'the same jugfile loaded again and again against the same store in one interpreter (a worker waiting at a barrier does that): at "%s" the tasks of the file have other '
                         'identifiers than at "%s" (digest over all of them %s vs %s)' % (sn, many[0][0], ids[allk][0][:16], many[0][1][allk][0][:16]), {'kind': 'ident-history', 'name': allk, 'stage': sn})
                return
    finally:
        core.CURRENT_INPUT.clear()
        core.rm_rf(d)
