#!/usr/bin/env python3
"""writes /verif/MANIFEST.json from the table below (one place to keep it consistent)"""
import json, os
HERE = os.path.dirname(os.path.abspath(__file__))
VERIF = os.path.dirname(HERE)

COMMON_NOTE = ("Trusted: Lean 4.33 kernel; axioms propext/Classical.choice/Quot.sound only (audited with #print axioms on every run; "
               "no sorry/native_decide/bv_decide/own axioms); the Python extractors/correspondence harness under /verif/harness. ")

# id -> dict(built, category, text, note, technique, design)
P = {}
def prop(id, built, text, note, technique, category='proof', design=None):
    P[id] = dict(built=built, text=text, note=COMMON_NOTE + note, technique=technique, category=category, design=design or ('5/' + id))

prop('C17', True,
     "Lean theorems for every list, every map_step>=1, reduce_step>=2 and every associative reducer (mapreduce_eq_fold, map_value, map_index, "
     "currymap_value, reduce_eq_fold, each_element_mapped_once) and for every Python slice (slice_value, slice_indices_in_bounds) about an executable "
     "model of jug/mapreduce.py; the model is tied to the code on every run by differential execution of the real map/mapreduce/currymap/reduce/"
     "block_access(_slice) against the compiled model on all (n, steps) and all slices in a box, and the defaults of the code are re-extracted into a "
     "kernel-checked bridge theorem.",
     "Modelled, not verified: CPython list/range/slice semantics (validated exhaustively on the box against the interpreter), sequential task execution "
     "(scheduling is C01-C03), pickling of task results.",
     "Lean 4 proof (induction over chunking / reduction tree, Int arithmetic for slices) + differential correspondence model-vs-code")

prop('C20', True,
     "Lean theorems: precedence (command line > configuration file coerced to the default's type > default) for every option whose argparse action "
     "leaves None when absent; table_absent_none and common_options_uniform are kernel-checked (decide) over the table of EVERY argparse action of "
     "EVERY subcommand, re-extracted by introspection from the code on every run (a store_true or default= breaks the build); argv_shape; jugdir template "
     "expansion (expand_literal, expand_default_template). parse() is run against the compiled model on random command lines x ini files x positional "
     "shapes for all subcommands, plus a malformed stream.",
     "Modelled, not verified: argparse's own tokenisation (command shape `jug SUB [options] JUGFILE [extra] [-- extra]`), configparser, Python %-formatting "
     "restricted to %(name)s and %%.",
     "Lean 4 proof + kernel-checked generated option table (translator) + differential correspondence")

prop('C07', True,
     "Lean model `ser` mirrors jug.hash.hash_update call by call (one token per M.update) incl. Task/Tasklet/_getitem/mapped-sequence hashes; theorem ser_same: "
     "values that differ only in representation (iteration order of sets/frozensets, insertion order of dicts and keyword arguments, at any depth) give the same "
     "stream, hence the same identifier (for every hash function and encoder; key digests distinct). Purity (process, seed, computation order) is by construction of "
     "the model; the tie is the correspondence: the driver computes real identifiers (Lean SHA-1 over the model stream) and they must equal jug's for every generated "
     "value in several insertion orders / array layouts, and jug's identifiers must agree across fresh interpreters under different PYTHONHASHSEEDs.",
     "Modelled, not verified: pickle.dumps on leaves (taken from the running interpreter), SHA-1 collision freedom, NumPy buffer export; layout/identity/seed independence "
     "of the real code is established by the sampled correspondence, not by a theorem.",
     "Lean 4 proof (mutual structural induction, mergeSort permutation lemmas) + differential correspondence on real SHA-1 identifiers")
prop('C08', True,
     "Full injectivity of the hash stream is FALSE for jug's scheme: ser_not_injective is proved for every encoder (known finding K1, replayed on the real code). "
     "Proved instead: ser_inj / ser_injective_partial / taskId_injective_partial - on the class Safe (no container whose end can be read as its own continuation; no "
     "custom-hashed parts; dicts in canonical order) the stream is prefix-free and uniquely determines name, positional args (value, type, order, nesting), keyword "
     "names and values, dtype/shape/data, tasklet base and operation, by mutual structural induction over all value constructors. Tie: model identifier = real identifier "
     "on every case; failing-input search: exhaustive pairs over a small universe + mutation operators; a real collision is tolerated only when the model predicts it (K1) "
     "or it is the lambda co_code case (K2), both listed in known_findings.json.",
     "Assumes SHA-1 collision free and pickle injective on leaves with disjoint label kinds (EncOK); CustomHash/NoHash exempt; byte-level unique decodability of the "
     "concatenated chunks is not modelled (token level).",
     "Lean 4 proof (prefix-freeness by mutual induction) + proved negation with witness + differential correspondence + collision search")

EXEC_NOTE = 'Modelled, not verified: a store/lock call is one atomic event at this layer (locks: C04; result publication: C05); task functions deterministic; the redis protocol runs against an in-memory stand-in; signals are raised at gate points (function entry/exit, hooks, wait-loop sleep) rather than between arbitrary byte codes; worker task lists/scanning order are abstracted (a worker may look at any task at any time); completeness is proved relative to the scan obligation (C01.exec_complete), which the real loop is shown to keep on every extracted path and every validated history, not for arbitrarily long task lists by a theorem about the text of the loop.'
TIE = ' Tie to the code, checked on every run: (1) translator: every root-to-leaf path of the real jug.jug.execution_loop (task lists [t], [d,t(d)], [t,u]; all 8 flag settings; all consistent answers of store/locks/functions/hooks incl. SystemExit/KeyboardInterrupt) is re-extracted into Generated/WorkerPaths.lean and the kernel checks each against the worker-local transition function (theorem worker_conforms); accept = lstep /\\ environment consistency is proved (accept_local, local_env_accept). (2) trace validation: real multi-worker runs of generated jugfiles under a gated scheduler on dict/file/file+pack/redis-protocol backends are replayed event by event through the compiled model, with equal final store. (3) failing-input search: property monitors on the same real runs. (4) the scheduling loop as a program: Model/Loop.lean is execution_loop for task lists of any length; LoopBridge.loop_scans_all / loop_conforms prove the scan obligation and the per-task protocol for every run of it, scanRun_of_workers composes the workers, and exec_complete_of_loop_workers / keep_going_completes_of_loop_workers / continuation_completes_of_loop_workers / recovery_completes_of_loop_workers state completeness with no scan hypothesis left; the program is compared event by event with the real loop on generated task lists (0-300 tasks) on every run (a difference alone is not a verdict: the real traces are then judged by lconforms / lscanOK).'
prop('C01', True, "Lean transition system of the distributed execution protocol (any number of workers, any interleaving). Theorems: exec_sound (every stored result = sequential denotation, for all histories incl. "
     "failures/stops/crashes/lock cleanup), loads_are_reference, load_enabled (aggressive unloading harmless), rerun_noop, exec_complete + exec_complete_reference (failure-free history of any W >= 1 workers, every worker kept the scan "
     "obligation `scanRun` and left with status 0 => every task is stored with its sequential value; joint invariant of protocol state and a scan ghost), exec_complete_partial/started_tasks_have_reference_value. The scan obligation is tied to the "
     "code twice: worker_scans_all (kernel, every extracted path of execution_loop) and evaluation of scanRun by the driver on every validated real history." + TIE,
     EXEC_NOTE, "Lean 4 proof (invariants by induction over histories) + kernel-checked extracted worker-loop paths + trace validation of gated real runs")
prop('C02', True, "Theorems: mutex_run/mutex_cs (no two workers inside the same task in any reachable state), no_rerun_once_stored, result_stable, publish_before_release, at_most_once/stored_never_started/"
     "exactly_once_if_stored (ghost run counter) for unboundedly many workers and arbitrary histories; at_most_once_general: along ANY history (failing tasks, stops, kills, lock clean-up) a task function is started "
     "again only after an attempt was interrupted: runs t <= 1 + interruptions of t (tight by example)." + TIE + " Targeted schedules: stall a worker between check and lock for every task; late joiners; early quitters.",
     EXEC_NOTE, "Lean 4 proof (invariants, ghost counter) + kernel-checked extracted worker-loop paths + trace validation")
prop('C03', True, "Theorems: run_after_deps, blocked_while_dep_missing, args_are_stored_results, result_is_function_of_stored over the dependency relation 'results the task really reads'." + TIE +
     " Ground truth of dependencies is measured independently of Task.dependencies() (loads of a cache-free sequential run) for every embedding kind and compared with what the code reports; edge tests hold a worker inside a dependency while others run.",
     EXEC_NOTE, "Lean 4 proof + kernel-checked extracted worker-loop paths + trace validation + dependency ground-truth comparison")
prop('C11', True, "Theorems: failure_stores_nothing, failed_cannot_dump, publish_needs_normal_return, dependents_never_start, exit_nonzero_after_failure, failed_unlock/failed_mark (release iff not --keep-failed), "
     "keep_going_continues, failed_lock_blocks/no_begin/persists, cleanup_failed_reenables, keep_going_completes_independents (any number of workers, any interleaving, tasks failing in --keep-going workers with or "
     "without --keep-failed: when all workers have left, every task has a result or is blocked = failed itself or transitively behind a failed task; joint invariant with the scan ghost of C01), failedT_iff." + TIE + " Runs inject failing task subsets under all flag combinations, follow-up runs and the real `cleanup --failed-only`.",
     EXEC_NOTE + " 'Every independent task completes under --keep-going' is proved relative to the scan obligation (see C01), which the real loop keeps on every extracted path (incl. the failure paths, worker_scans_all) and on every validated history.", "Lean 4 proof + kernel-checked extracted worker-loop paths (exception subtrees) + trace validation")
prop('C12', True, "Theorems: stop_leaves_no_lock (an exited worker holds no lock, any history), stop_always_enabled (a stop can surface in every live state), stop_changes_nothing_shared, stopping_only_unlocks_and_exits, "
     "cannot_exit_holding, interrupted_task_has_no_result, state_after_stop_is_regular, continuation_completes (from the state stops leave behind, a failure-free execute by fresh workers gives every task a result; scan invariant of C01); bridge stop_mechanisms_use_known_hooks over the table re-extracted from exit_checks.py/execute.py." + TIE +
     " Runs raise SystemExit/KeyboardInterrupt inside every task function, inside the wait-loop sleep and from the task-count hook; real processes with real SIGTERM/SIGINT in both tiers.",
     EXEC_NOTE, "Lean 4 proof + kernel-checked extracted worker-loop paths (SystemExit/KeyboardInterrupt subtrees) and stop table + trace validation + real-signal process runs")
prop('C13', True, "Theorems: crash_always_enabled, crash_preserves, crash_keeps_results_correct, residue_is_own_locks, survivors_skip, recovery (lock cleanup re-establishes the invariant and keeps all results), "
     "recovery_no_rerun, recovered_task_can_be_locked, recovery_state_ok + recovery_completes (after any kills and cleanup --locks-only, a failure-free execute by fresh workers - the dead stay dead - gives every task a result)." + TIE + " Runs kill workers at every gate, then the real `cleanup --locks-only` and a recovery run; the combined history (crash, removeLocks, recovery) is replayed through the model; real SIGKILL of real processes.",
     EXEC_NOTE + " Kill points inside a single file-system write are C05's.", "Lean 4 proof + trace validation of crash/recovery histories + real SIGKILL process runs")

prop('C04', True, "The lock operations are not modelled by hand: on every run the decision trees of get/release/is_locked/fail/is_failed of file_based_lock, file_keepalive_based_lock, redis_lock and dict_lock "
     "over shared-state primitives (exists, O_CREAT|O_EXCL, unlink, utime, stat; SETNX, DEL, GET, SET; dict entries) are extracted from the real classes (translator) and the kernel checks by evaluation that they are "
     "well typed (file_/keepalive_/redis_/dict_wellTyped). Generic theorems for well-typed programs, any number of clients, any interleaving of primitives, any history under the owner discipline: mutex, held_excludes, "
     "get_truthful, race_one_winner (exactly one winner), failed_stays, failed_window / failed_window_idle (between fail and release every completed is_locked/is_failed answers True and every get False, for operations of any number of "
     "other clients overlapping in any way), solo_behaviour (failed => locked+failed+not acquirable; reacquire after release). Correspondence: every interleaving of small client sets on the "
     "real classes with gated primitives (real directory / redis stand-in) must give the results of the model interpreting the extracted trees; monitors look for two holders / no winner / non-sticky failure.",
     "Trusted: `sem` (POSIX O_EXCL atomicity, unlink/utime/stat; Redis single-command atomicity via an in-memory stand-in); owner discipline (only the holder releases/fails); the dict store is single-process (atomic ops). "
     "operations that were already half-way when fail()/release() happened are covered by the exhaustive-interleaving correspondence only (the window theorem starts with the other clients idle or on course); independence of names is by construction of the model (one name) and checked dynamically.",
     "Lean 4 proof (generic invariant over extracted, kernel-type-checked lock programs) + exhaustive-interleaving correspondence on the real classes")

prop('C19', True, "Lean model of the helper loop and of is_failed() on an integer clock. Theorems: live_never_failed (for every run length and every sequence of round overshoots <= Delta, if sigma + rounds*(period+Delta) < expiry "
     "the lock's age stays below the expiry at every instant), start_inv, dead_eventually_failed (no refresh after the wake-up that finds the parent gone; failed from death+expiry on), terminates_parent_gone, "
     "terminates_lock_gone. Whole lives of the helper (runEnv: any schedule of overshoots and of what each wake-up sees, ending at the first round whose loop condition fails): lock_gone_stops (the helper ends within `counter` rounds once the lock or the worker is gone for good), dead_worker_run (after any past, the first wake-up that finds the worker gone ends the life without a refresh; failed from that wake-up + expiry on), stopped_is_final, run_mtime_le_now, runEnv_live, and both halves closed for the re-extracted constants (live_never_failed_code, dead_worker_code); tied by letting the real main() live on the simulated clock under random deaths, removals, overshoots and horizons and comparing running/exit instant/mtime/is_failed() with runEnv. The lock object's bookkeeping of its helper (Model/KeepAliveLock.lean: lock file, failed mark, self.monitor under get / release / fail and under removal of the file by others, the helper ending by itself, another worker taking the free lock): held_lock_has_helper (after every history a lock the object holds has a running helper it refers to), get_spec, let_go_stops_helper, no_orphans_without_interference; tied by running every operation sequence up to length 4 and random longer ones on the real lock class (Popen replaced by a stand-in) and comparing the state after every step. Bridges re-extracted on every run by driving the real main()/is_failed()/lock on a simulated clock: constants_safe (the re-extracted period, rounds and expiry tolerate wake-ups late by the assumed 10 s: 59 + rounds*(period+10) < expiry), loop_matches "
     "(call order of 125 real rounds = model), exits_match, helper_started_plainly (Popen argv/kwargs, release/fail kill the helper). Correspondence: real loop on the simulated clock for seconds..10 days, death at every "
     "offset, lock removal; plus a real helper process started by the real lock with a relative jug directory.",
     "Timing assumption (stated in the theorem): a round overshoots its sleep by less than Delta; a refresh racing the helper's own SIGKILL is not modelled; getppid()/kill() semantics trusted.",
     "Lean 4 proof (invariant over rounds, linear arithmetic) + kernel-checked extracted constants/traces + simulated-clock correspondence + real helper process")

prop('C05', True, "Lean model of a write at the level of file-system primitives with three layers per file (Python buffer, OS cache, disk): mkstemp/write/direct write/flush/fsync/close/fsync(dir)/rename. Theorems for every "
     "operation sequence accepted by the decidable discipline check `safeSeq` and every cut point: visible_implies_complete (a reader / post-kill / post-power-loss image that shows the final name shows all bytes), "
     "invisible_before_rename, residue_is_temp_only (an interrupted write leaves only a file under tempfiles/), after_rename, bad_sticky. Translator: on every run the real file_store.dump / resave_pack / update_pack are executed "
     "with every file-system primitive interposed, for pickles small and large, None, plain/empty/0-d/F-order/strided/object/datetime/compressed arrays, overwrite of a packed key; the recorded sequences are regenerated into "
     "Generated/DumpSeqs.lean and the kernel checks dump_sequences_safe, packed_overwrite_order (new file published before the stale packed copy is dropped) and redis_dump_is_one_set. Failing-input search: before EVERY primitive of the real "
     "write a fresh store object reads the live directory (loadable => a value that was written; no temp file listed as a key; an overwritten key always has its old or new value; other keys intact) and files reachable under final names "
     "that are not fully fsynced are truncated to their durable length and read (power loss); redis: a second client reads before every command. Writes that FAIL (a primitive reports an error, the value cannot be pickled): "
     "the model has failed / truncate / raised, theorems failed_write_visible_implies_complete and gave_up_publishes_nothing, the real dump is re-run with its k-th data primitive failing for every k and the kernel checks "
     "failing_writes_safe on the recorded sequences; every operation that rewrites the pack file (remove, remove_many, cleanup) is probed like dump.",
     "Trusted: POSIX rename atomicity, fsync durability, ordered durability of directory operations (the model's power-loss semantics); harness interposition (fsgate/dumpcheck) sees exactly the file-system calls made through the names "
     "file_store.py uses plus the traced writer object; torn writes below one write call and NFS client caching are not exhibited; the bytes themselves (pickle/npy decoding of a complete file) are C06's.",
     "Lean 4 proof (invariant over primitive sequences, all cut points) + kernel-checked re-extracted write sequences + reader/kill/power-loss probes at every primitive of real writes")

prop('C06', True, "Lean model of the file store with its pack (loose files, in-memory pack, pack file; dump/load/can_load/remove/remove_many/list/pack/close+reopen/cleanup) and refinement proof to a plain map: "
     "step_refines (same answer, abstraction commutes, well-formedness kept) and store_refines_map (any history, by induction), list_nodup, reopen_id, pack_id. Correspondence: random histories x a generated value universe "
     "x file / file+compression / in-memory / in-memory with backing file / redis-protocol backends answer exactly like the compiled model and like a Python dict (values compared by type and content); a stale-client family covers "
     "keys present both packed and loose.",
     "Modelled, not verified: pickle, zlib, NumPy .npy I/O (their round trip on the value universe is sampled by the correspondence); array byte order is normalised in comparisons (NumPy's own pickling does that); "
     "single store object per history (two-object interleavings only in the stale-client family).",
     "Lean 4 proof (refinement to an abstract map by induction over histories) + differential correspondence on real stores")
prop('C10', True, "Theorems on the store model with locks and temp files: cleanup_results / needed_kept / unneeded_removed (default and --keep-locks keep exactly the active results, packed or not), keep_locks, locks_only, "
     "failed_only(+cases), default_locks, cleanup_wf; bridge dispatch_matches: the store methods the real CleanupCommand calls for all 8 option combinations (re-extracted with a scripted store on every run) are the model's. "
     "Correspondence: random store contents (active/foreign results, packed/loose, held/failed locks, temp files, six spellings of the jug directory) x four modes x file/file+compression/dict/dict+file/redis through the real "
     "subcommand vs the model and vs the property; a store object opened before a concurrent `jug pack` must not undo it.",
     "Modelled, not verified: os.walk / unlink; redis via the stand-in; the active set is task.alltasks of the loaded jugfile.",
     "Lean 4 proof + kernel-checked extracted dispatch table + differential correspondence through the real subcommand")

prop('C09', True, "Lean model of the command's memoised recursion (aff) and of the specification (inductive Affected): cli_eq_spec (sound and complete for every DAG in creation order), shell_union_eq_cli (shell-invalidating "
     "every matching task = command line), shellLoop_spec / shell_terminates / shell_total (the interactive shell's reverse-edge work list as coded ends and invalidates exactly the root and its dependents), store_after (exactly the affected results are removed, every other untouched), invalidate_keeps_closed (the store stays closed under dependencies, so check stays truthful and execute "
     "re-runs exactly the removed tasks by C01/C02). Correspondence: generated DAGs x every function name as target x full/partial/holed/packed prior states x 4 backends through the real InvalidateCommand and the real shell "
     "invalidate function; removed set = model's; monitors: nothing that really reads an invalidated result survives, nothing outside the reported closure is touched, re-execution runs exactly the removed tasks and restores values.",
     "Task hashes are modelled as task indices (equal-hash duplicates are one task); the shell model is tied to the code by the sampled correspondence (removed set of the real function = shellLoop's). Dependency ground truth measured by a cache-free sequential run.",
     "Lean 4 proof (induction on fuel / on the Affected derivation) + differential correspondence through the real subcommands")
prop('C15', True, "Lean model of the uncached classifier, the cached classifier (update_status) and the check walk. Theorems: classify_spec (each category's meaning; exhaustive and exclusive), totals_add_up, cached_eq_uncached "
     "(cache = unknown or truthful status of an earlier state with fewer results => cached = uncached), check_iff (for dependency-closed stores exit 0 iff all complete; counterexample without closure). Bridge classifier_table_matches: "
     "the real update_status is run on all 2304 combinations (dependencies among two tasks x results x lock x cached statuses) and the kernel checks every row against classifyCached. Correspondence: printed tables (all five columns per "
     "name + Total) of the real `jug status` uncached/cached (on-disk cache along monotone histories), the counters `jug graph` writes (graph_classifier_eq) and the real check walk on generated DAGs x arbitrary result subsets and locks x 4 backends, plus the stores `jug invalidate` leaves behind. The one-line summary of --short: shortSummary with short_all_complete_iff / short_all_complete_count, every printed line compared with the model. The memoizing wrapper the cached mode reads every backend through (memoize_store / cache_lock) is modelled in Model/Memo.lean: memo_truthful, locked_answers_constant, failed_sticky, canLoad_truthful; the real wrapper is driven with every query sequence up to length 3 and random longer ones on three backends, base lock unchanged or changing, and compared with the model; whole runs of can_load calls (canLoadRun: canLoadRun_truthful, canLoadRun_asks_once, canLoadRun_lookups_le) are compared with the real wrapper over a counting backend on the same three backends.",
     "Direct dependencies = what Task.dependencies() reports (C03 ties that to reality).",
     "Lean 4 proof + kernel-checked exhaustive classifier table (translator) + differential correspondence on printed output")

prop('C16', True, "Lean model of argument evaluation (value()) and dependency reporting over tasks, tasklets t[i] / t[a:b] / t[u] with u a task / nested, return_tuple-style checked elements, containers and pass-through wrappers, with "
     "CPython indexing/slicing on a value universe. Theorems (mutual structural induction over expressions): view_value, return_tuple_value, wrap_transparent, deps_complete (every task occurring anywhere underneath is reported), "
     "eval_reads_only_deps (the value depends only on the reported dependencies, so waiting for / invalidating them suffices: C03, C09), views_have_no_entry. Correspondence: random expressions (incl. a malformed stream) evaluated by the real "
     "value() / dependencies() / can_run() vs the model vs plain Python; the view's identifier and dependencies must not change by evaluating it; mapped sequences and all their slices; CPython indexing validated exhaustively on a box.",
     "Wrappers CustomHash/NoHash applied to plain values (documented use); Python semantics of the small value universe trusted as validated against the running interpreter.",
     "Lean 4 proof (mutual structural induction) + differential correspondence with the real value()/dependencies()")

prop('C14', True, "Lean model of the loader: a jugfile is a program whose continuation may depend on stored values (task / barrier / bvalue / compound); load against a store gives the task list and the barrier flag. Theorems: "
     "barrier_guard, bvalue_exact (stored value or stop, no third outcome), load_prefix (against any sound store the loaded list is a prefix of the sequential program), progress_from_clean and phase_progress (a reload after the "
     "loaded tasks completed defines strictly more tasks or reaches the end: the reload loop terminates), check_never_early (stopped => some loaded task has no result, so check exits 1 by C15). Correspondence: generated "
     "multi-barrier jugfiles whose later shape depends on earlier values x every prefix and many arbitrary subsets of results present x in-memory/redis-protocol/file stores: real jug.init task list and flag = model; marker side effects "
     "after each barrier; values handed out by bvalue; the real reload loop to completion; real concurrent `jug execute` processes; the real check walk.",
     "Assumes bvalue arguments are tasks created earlier; completion of each phase's tasks is C01; an interrupt swallowed by bvalue's bare except during a reload is outside the statement.",
     "Lean 4 proof (structural induction over jugfile programs with value-dependent continuations) + differential correspondence with the real loader")
prop('C18', True, "Same loader model with compound tasks. Theorems: collapsed_defines_none, expanded_defines_inner, compound_value (same key either way; sound store => same value), compound_counts_for_barrier, "
     "cleanup_keeps_compound (with C10: inner results may go, the compound stays), collapsed_contributes_one. Correspondence: generated jugfiles with several compounds (mixed with barriers) x store states (nothing / some inner / "
     "all inner / compound with and without inner results / stale lock on the compound) on three store kinds: real task list = model; life cycle execute -> reload -> execute -> real cleanup -> reload -> execute with value, "
     "re-execution and store-content monitors.",
     "Compound builders deterministic; inner tasks are ordinary tasks of layer A (their scheduling is C01-C03).",
     "Lean 4 proof + differential correspondence with the real loader and the real cleanup")

def main():
    checks, na = [], []
    ids = ['C%02d' % i for i in range(1, 21)]
    for i in ids:
        if i in P and P[i]['built']:
            p = P[i]
            checks.append({
                'property_id': i,
                'quick_cmd': './check %s --tier quick' % i,
                'thorough_cmd': './check %s --tier thorough' % i,
                'evidence_file': 'evidence/%s.json' % i,
                'replay_cmd_template': './check %s --replay {path}' % i,
                'engine': 'lean-jugmodel',
                'level_claimed': {'category': p['category'], 'text': p['text'], 'design_ref': 'DESIGN.md section ' + p['design']},
                'level_note': p['note'],
                'technique': p['technique'],
            })
        else:
            na.append({'property_id': i, 'reason': 'not claimed yet: the Lean model/check for this property is still under construction in this revision (see DESIGN.md section 5); the technique is applicable'})
    m = {
        'version': 1,
        'setup_cmd': './tools/setup.sh',
        'hooks': {'guard': 'JUG_VERIF', 'enable': 'none needed: all interposition is installed by the harness at run time (no in-tree hooks)',
                  'baseline_off_cmd': 'cd /repo && /venv/bin/python -m pytest -ra -q -p no:cacheprovider --timeout=900 --continue-on-collection-errors',
                  'source_commits': [], 'add_only': True},
        'engines': [{'name': 'lean-jugmodel', 'path': 'lean/', 'serves_properties': [c['property_id'] for c in checks],
                     'kind_free_text': 'Lean 4 model of jug (JugModel/Model), property theorems (JugModel/Props), generated bridge files (JugModel/Generated, rewritten from /repo on every run), compiled line-protocol driver (Main.lean) used by the Python correspondence harness in harness/jugverif'}],
        'checks': checks,
        'not_applicable': na,
        'notes': 'Entry point ./check <id> --tier quick|thorough [--replay f]; exit 0 held, 1 violation, 2 infrastructure error. Known findings: known_findings.json. Seeded breaking changes: seeded/.',
    }
    with open(os.path.join(VERIF, 'MANIFEST.json'), 'w') as f:
        json.dump(m, f, indent=1)
    print('claimed:', [c['property_id'] for c in checks])

if __name__ == '__main__':
    main()
