#!/venv/bin/python
"""Confirm the staged breaking changes (seeded/pending/<id>/) and file them as seeded/<id>/ with a meta.json.

For every change: (1) a scratch copy of /repo's committed tree is made under /tmp, the patch applied, the repository's own test suite run
there (must equal the baseline: 121 passed, only test_lock_permissions failing), the sub-agent's demonstration run with the change (must fail)
and on the unchanged tree (must pass); the copy is removed. (2) the patch is applied to /repo itself, the registered quick checks named in
DETECT are run from /verif, and /repo is restored (`git checkout -- .`). Nothing is ever committed to /repo.

usage: tools/confirm_seeded.py [--src <dir with <id>/patch.diff,demo.py,README.md>] [--also id:Cxx+Cyy,...] [ids...]      (default: everything in the source dir)
"""
import json
import os
import re
import shutil
import subprocess
import sys
from concurrent.futures import ThreadPoolExecutor

VERIF = os.path.dirname(os.path.dirname(os.path.abspath(__file__)))
REPO = '/repo'
PENDING = os.path.join(VERIF, 'seeded', 'pending')
if '--src' in sys.argv:
    i = sys.argv.index('--src')
    PENDING = os.path.abspath(sys.argv[i + 1])
    del sys.argv[i:i + 2]
EXTRA = {}      # id -> additional properties whose checks are run too
if '--also' in sys.argv:
    i = sys.argv.index('--also')
    for part in sys.argv[i + 1].split(','):
        k, v = part.split(':')
        EXTRA.setdefault(k, []).extend(v.split('+'))
    del sys.argv[i:i + 2]
PY = '/venv/bin/python'

DETECT = {
    'C01-m1': ['C01', 'C06'], 'C01-m2': ['C01', 'C12'], 'C02-m1': ['C02', 'C04'], 'C02-m2': ['C02'], 'C03-m1': ['C03'], 'C03-m2': ['C03'],
    'C04-m1': ['C04'], 'C04-m2': ['C04'], 'C05-m1': ['C05'], 'C05-m2': ['C05'], 'C06-m1': ['C06'], 'C06-m2': ['C06'],
    'C07-m1': ['C07', 'C08'], 'C07-m2': ['C07'], 'C08-m1': ['C08', 'C07'], 'C08-m2': ['C08'], 'C09-m1': ['C09', 'C06'], 'C09-m2': ['C09'],
    'C10-m1': ['C10'], 'C10-m2': ['C10'], 'C11-m1': ['C11'], 'C11-m2': ['C11', 'C04'], 'C12-m1': ['C12'], 'C12-m2': ['C12'],
    'C13-m1': ['C13', 'C05'], 'C13-m2': ['C13'], 'C14-m1': ['C14'], 'C14-m2': ['C14'], 'C15-m1': ['C15'], 'C15-m2': ['C15'],
    'C16-m1': ['C16'], 'C16-m2': ['C16'], 'C17-m1': ['C17'], 'C17-m2': ['C17'], 'C18-m1': ['C18'], 'C18-m2': ['C18'],
    'C19-m1': ['C19'], 'C19-m2': ['C19'], 'C20-m1': ['C20'], 'C20-m2': ['C20'],
}


def sh(cmd, cwd=None, env=None, timeout=1800):
    e = dict(os.environ)
    e.update(env or {})
    try:
        r = subprocess.run(cmd, shell=True, cwd=cwd, env=e, stdout=subprocess.PIPE, stderr=subprocess.STDOUT, text=True, timeout=timeout)
        return r.returncode, r.stdout
    except subprocess.TimeoutExpired as ex:
        return 124, (ex.stdout or '') + '\nTIMEOUT'


def patch_of(mid):
    d = os.path.join(PENDING, mid)
    a = os.path.join(d, 'patch.adapted.diff')
    return (a, True) if os.path.exists(a) else (os.path.join(d, 'patch.diff'), False)


def needs(readme):
    m = re.search(r'(?im)^.*eeded to manifest.*$', readme)
    if not m:
        return ''
    rest = readme[m.start():]
    para = rest.split('\n\n')[0]
    return re.sub(r'\s+', ' ', para.replace('**', '')).strip()


def stage1(mid):
    """scratch copy: test suite + demo with the change; demo on the unchanged tree"""
    patch, adapted = patch_of(mid)
    sw = '/tmp/seedconf/%s' % mid
    shutil.rmtree(sw, ignore_errors=True)
    os.makedirs(sw)
    out = {'id': mid, 'adapted': adapted}
    try:
        rc, o = sh('git -C %s archive HEAD | tar -x -C %s' % (REPO, sw))
        rc, o = sh('git apply %s' % patch, cwd=sw)
        out['applies'] = rc == 0
        if rc != 0:
            out['apply_error'] = o[-300:]
            return out
        rc, o = sh('%s -m pytest -q -p no:cacheprovider --timeout=900 jug/tests 2>&1 | tail -5' % PY, cwd=sw, env={'PYTHONPATH': sw})
        tail = o.strip().split('\n')
        out['suite_with_change'] = tail[-1] if tail else ''
        out['suite_failed_tests'] = sorted(set(re.findall(r'FAILED (\S+)', o)))
        demo = os.path.join(PENDING, mid, 'demo.py')
        shutil.copy(demo, os.path.join(sw, 'demo_seed.py'))
        rc, o = sh('%s demo_seed.py' % PY, cwd=sw, env={'PYTHONPATH': sw, 'HOME': sw}, timeout=600)
        out['demo_with_change'] = {'exit': rc, 'tail': o.strip()[-400:]}
    finally:
        shutil.rmtree(sw, ignore_errors=True)
    # unchanged tree (another scratch copy so that nothing is written into /repo)
    sw2 = '/tmp/seedconf/%s-clean' % mid
    shutil.rmtree(sw2, ignore_errors=True)
    os.makedirs(sw2)
    try:
        sh('git -C %s archive HEAD | tar -x -C %s' % (REPO, sw2))
        shutil.copy(os.path.join(PENDING, mid, 'demo.py'), os.path.join(sw2, 'demo_seed.py'))
        rc, o = sh('%s demo_seed.py' % PY, cwd=sw2, env={'PYTHONPATH': sw2, 'HOME': sw2}, timeout=600)
        out['demo_unchanged'] = {'exit': rc, 'tail': o.strip()[-200:]}
    finally:
        shutil.rmtree(sw2, ignore_errors=True)
    return out


def stage2(mid, info):
    """apply to /repo, run our checks, undo"""
    patch, adapted = patch_of(mid)
    assert sh('git -C %s status --porcelain' % REPO)[1].strip() == '', '/repo is not clean'
    rc, o = sh('git -C %s apply %s' % (REPO, patch))
    checks = {}
    try:
        for prop in DETECT.get(mid, [mid.split('-')[0]]) + EXTRA.get(mid, []):
            rc, o = sh('./check %s --tier quick' % prop, cwd=VERIF, timeout=3000)
            vio = [l for l in o.split('\n') if l.startswith('VIOLATION')]
            what = [l.strip() for l in o.split('\n') if l.strip().startswith('what:')]
            checks[prop] = {'exit': rc, 'violation_lines': vio[:3], 'what': [w[:400] for w in what[:2]],
                            'concrete_failing_input': any('no-failing-input-found' not in v for v in vio) and bool(vio)}
    finally:
        sh('git -C %s checkout -- .' % REPO)
    info['checks'] = checks
    info['detected_by'] = [p for p, c in checks.items() if c['exit'] == 1]
    return info


def main():
    ids = sys.argv[1:] or sorted(os.listdir(PENDING))
    with ThreadPoolExecutor(8) as ex:
        infos = list(ex.map(stage1, ids))
    for info in infos:
        mid = info['id']
        print('==', mid, 'applies', info.get('applies'), '| suite:', info.get('suite_with_change'), '| demo with change exit', info.get('demo_with_change', {}).get('exit'),
              'unchanged exit', info.get('demo_unchanged', {}).get('exit'), flush=True)
        if not info.get('applies'):
            continue
        stage2(mid, info)
        print('   detected by', info['detected_by'], {p: (c['exit'], c['concrete_failing_input']) for p, c in info['checks'].items()}, flush=True)
        readme = open(os.path.join(PENDING, mid, 'README.md')).read()
        patch, adapted = patch_of(mid)
        meta = {
            'id': mid,
            'property': mid.split('-')[0],
            'origin': 'written by a fresh sub-agent that was given only the property text and its own scratch worktree under /tmp (nothing from /verif)',
            'summary': readme.strip().split('\n')[0].lstrip('# ').strip(),
            'needs_to_manifest': needs(readme),
            'files_changed': sorted(set(re.findall(r'^\+\+\+ b/(\S+)', open(patch).read(), re.M))),
            'adapted': adapted,
            'adapted_note': ('the sub-agent wrote the patch against the pinned commit; a later fix: commit touched the same lines, so the same change was re-made by hand on the current tree '
                             '(patch.diff); the original is kept as patch.original.diff') if adapted else None,
            'what_was_run': {
                'scratch_copy': 'git archive of /repo HEAD under /tmp/seedconf, patch applied, removed afterwards',
                'test_suite_with_change': {'cmd': 'PYTHONPATH=<copy> /venv/bin/python -m pytest -q -p no:cacheprovider --timeout=900 jug/tests', 'result': info.get('suite_with_change'),
                                           'failed_tests': info.get('suite_failed_tests'), 'baseline': '121 passed, 1 failed (test_file_store.py::test_lock_permissions fails on the unchanged tree too)'},
                'demo_with_change': info.get('demo_with_change'),
                'demo_unchanged_tree': info.get('demo_unchanged'),
                'verif_checks_on_repo_with_patch_applied': info['checks'],
            },
            'detected_by': info['detected_by'],
        }
        dst = os.path.join(VERIF, 'seeded', mid)
        if os.path.realpath(os.path.join(PENDING, mid)) == os.path.realpath(dst):
            # re-confirming a change that is already filed: only the record of what was run is rewritten
            json.dump(meta, open(os.path.join(dst, 'meta.json'), 'w'), indent=1)
            continue
        shutil.rmtree(dst, ignore_errors=True)
        os.makedirs(dst)
        shutil.copy(patch, os.path.join(dst, 'patch.diff'))
        if adapted:
            shutil.copy(os.path.join(PENDING, mid, 'patch.diff'), os.path.join(dst, 'patch.original.diff'))
        shutil.copy(os.path.join(PENDING, mid, 'demo.py'), os.path.join(dst, 'demo.py'))
        shutil.copy(os.path.join(PENDING, mid, 'README.md'), os.path.join(dst, 'README.md'))
        json.dump(meta, open(os.path.join(dst, 'meta.json'), 'w'), indent=1)
    shutil.rmtree('/tmp/seedconf', ignore_errors=True)


if __name__ == '__main__':
    main()
