#!/bin/bash
# usage: tools/run_all.sh quick|thorough [seed] [jobs]   -- runs every check, logs in out/<tier>/<id>.log, prints a summary
TIER=${1:-quick}; SEED=${2:-0}; JOBS=${3:-8}
cd "$(dirname "$0")/.." || exit 2
mkdir -p out/$TIER
ls harness/jugverif/props/c*.py | sed 's/.*\/c\([0-9]*\)\.py/C\1/' | xargs -P "$JOBS" -I{} sh -c "VERIF_SEED=$SEED ./check {} --tier $TIER > out/$TIER/{}.log 2>&1; echo {} exit=\$? \$(tail -1 out/$TIER/{}.log | cut -c1-160)"
