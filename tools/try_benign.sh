#!/bin/bash
# usage: tools/try_benign.sh <patch>    -- applies a behaviour-preserving patch to /repo, runs ALL quick checks, undoes; prints only non-passing checks
P="$1"
cd /repo || exit 2
git apply "$P" || { echo "cannot apply $P"; exit 2; }
cd /verif
timeout 2400 tools/run_all.sh quick 0 10 2>&1 | grep -v "exit=0" | cut -c1-300
git -C /repo checkout -- .
