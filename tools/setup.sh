#!/bin/bash
# MANIFEST.setup_cmd: regenerate the Generated/*.lean files from /repo, then build every model, theorem and the driver.
set -e
cd "$(dirname "$0")/.."
./check ALL --regen
cd lean
lake build 2>&1 | grep -v "^warning\|^  \|^Note\|^Hint\|^$" | tail -30
lake build > /dev/null
