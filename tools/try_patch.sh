#!/bin/bash
# usage: tools/try_patch.sh <patch-file | revert:<commit>> <prop> [<prop>...]   -- applies to /repo, runs quick checks, undoes
set -u
P="$1"; shift
cd /repo || exit 2
if [[ "$P" == revert:* ]]; then
  C="${P#revert:}"
  git diff "$C"^ "$C" | git apply -R || { echo "cannot revert $C"; exit 2; }
else
  git apply "$(cd /verif && realpath "$P")" || { echo "cannot apply $P"; exit 2; }
fi
for prop in "$@"; do
  echo "=== $prop on $(basename $(dirname "$P")) $P"
  (cd /verif && timeout 3000 ./check "$prop" 2>&1 | tail -6)
  echo "exit=$?"
done
git -C /repo checkout -- . 
git -C /repo status --short | head
